---------------------------- MODULE TraceIndex ----------------------------
(* Validation of recorded histories of the real IndexedCache.            *)
(* One JSON line per history: [id, nkeys, evs], events                   *)
(*   insert [b, o] | clear | check [lk, res] | retrieve [lk, res]        *)
(* Judge = "ref": every observation must equal the reference (C20).      *)
(* Judge = "dev": every observation must equal what the mechanism with   *)
(*   the code's descent (PreferWildcard) answers - used to decide        *)
(*   whether a rejected history is exactly the recorded known finding.   *)
(* One TLC step per event; a rejected history is recorded with the event *)
(* and the clause that failed, and validation moves on to the next one.  *)
EXTENDS CacheIndexOps, IOUtils
CONSTANT Judge
Traces == ndJsonDeserialize(IOEnv.TRACE_FILE)

VARIABLES tid, l, st
tvars == <<tid, l, st>>
Empty == [store |-> <<>>, tree |-> EmptyTree, seen |-> <<>>, allseen |-> FALSE]

\* clause that rejects event ev in state s, or "ok"
Clause(ev, s) ==
  CASE ev.op \in {"insert", "clear"} -> "ok"
    [] ev.op = "check" ->
         LET exp == IF Judge = "ref" THEN CheckRef(s.store, ev.lk) ELSE CheckMech(s.seen, s.allseen, ev.lk)
         IN IF ev.res = exp THEN "ok" ELSE IF ev.res THEN "check.false-positive" ELSE "check.false-negative"
    [] ev.op = "retrieve" ->
         \* every stored entry that agrees with the lookup, once: two entries may merge with the lookup to the same
         \* (binding, output) pair, then that pair is due twice
         LET exp == IF Judge = "ref" THEN RetrieveRef(s.store, ev.lk) ELSE RetrieveMech(s.tree, ev.lk)
             Due(p) == IF Judge = "ref"
                       THEN Cardinality({i \in 1..Len(s.store) : Agree(s.store[i].b, ev.lk)
                                           /\ <<MergeB(ev.lk, s.store[i].b), s.store[i].o>> = p})
                       ELSE 1
             Got(p) == Cardinality({j \in 1..Len(ev.res) : <<ev.res[j][1], ev.res[j][2]>> = p})
         IN IF \E k \in 1..Len(ev.res) : <<ev.res[k][1], ev.res[k][2]>> \notin exp THEN "retrieve.extra"
            ELSE IF \E p \in exp : Got(p) > Due(p) THEN "retrieve.duplicate"
            ELSE IF \E p \in exp : Got(p) < Due(p) THEN "retrieve.missing"
            ELSE "ok"

Apply(ev, s) ==
  CASE ev.op = "insert" -> [store |-> StorePut(s.store, ev.b, ev.o), tree |-> TreePut(s.tree, ev.b, ev.o),
                            seen |-> IF s.allseen THEN s.seen ELSE Append(s.seen, ev.b),
                            allseen |-> (s.allseen \/ \A k \in 1..Len(ev.b) : ev.b[k] = 0)]
    [] ev.op = "clear" -> Empty
    [] OTHER -> s

Init == tid = 1 /\ l = 1 /\ st = Empty /\ TLCSet(1, {}) /\ TLCSet(2, 0)
Step == /\ tid <= Len(Traces)
        /\ IF l > Len(Traces[tid].evs)
           THEN /\ TLCSet(2, tid) /\ tid' = tid + 1 /\ l' = 1 /\ st' = Empty
           ELSE LET ev == Traces[tid].evs[l]
                    c == Clause(ev, st)
                IN IF c = "ok"
                   THEN tid' = tid /\ l' = l + 1 /\ st' = Apply(ev, st)
                   ELSE /\ TLCSet(1, TLCGet(1) \cup {[id |-> Traces[tid].id, at |-> l, clause |-> c]})
                        /\ TLCSet(2, tid) /\ tid' = tid + 1 /\ l' = 1 /\ st' = Empty
Spec == Init /\ [][Step]_tvars
Post == /\ PrintT(<<"CHECKED", TLCGet(2)>>)
        /\ \A f \in TLCGet(1) : PrintT(<<"REJECT", f.id, f.at, f.clause>>)
        /\ TLCGet(2) = Len(Traces)
===========================================================================
