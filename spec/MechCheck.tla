----------------------------- MODULE MechCheck -----------------------------
(* Layer B against Layer A: for every program of the bounded generator, on   *)
(* the reference world and two domain choices, the mechanism model yields    *)
(* exactly the rows the denotation prescribes.                               *)
EXTENDS GenQuery, EQLMech3, RefWorld
Doms == << <<1, 2, 3, 4>>, <<3, 1>>, <<2, 4, 1>> >>
MQ(p, d1, d2) == [vars |-> [j \in 1..NV |-> [cls |-> "A", dom |-> IF j = 1 THEN Doms[d1] ELSE Doms[d2]]],
                  flats |-> <<>>, bound |-> p.bound, desc |-> p.desc, sel |-> p.sel, cond |-> p.cond]
MechEqualsSem ==
  done # <<>> => \A d1 \in 1..2, d2 \in 2..3 :
     LET q == MQ(done[1], d1, d2)
     IN MechSound(q, RefW) /\ MechComplete(q, RefW) /\ (NV = 1 => MechExact(q, RefW))
\* stage B2: with the duplicate suppression of AND / ElseIf
Mech2EqualsSem ==
  done # <<>> => \A d1 \in 1..2, d2 \in 2..3 :
     LET q == MQ(done[1], d1, d2)
     IN Mech2Sound(q, RefW) /\ Mech2Complete(q, RefW) /\ Mech2NoDup(q, RefW)
\* stage B3: with the operator result caches, first evaluation and re-evaluation (C05 at the level of the design)
Mech3EqualsSem ==
  done # <<>> => \A d1 \in 1..2, d2 \in 2..3 :
     LET q == MQ(done[1], d1, d2)
     IN \A k \in 1..2 : Mech3Sound(q, RefW, k) /\ Mech3Complete(q, RefW, k) /\ Mech3NoDup(q, RefW, k)
\* stage B4: for_all over a universal variable, the solutions of a sub-query over it, or an attribute of either, alone or
\* conjoined with conditions on the free variable; first evaluation and re-evaluation
RECURSIVE ForAllPlain(_)
ForAllPlain(c) ==
  CASE c.k = "forall" -> (c.ue.k \in {"var", "sub"} \/ (c.ue.k = "attr" /\ c.ue.e.k \in {"var", "sub"})) /\ ForAllPlain(c.c)
    [] c.k \in {"and", "or"} -> ForAllPlain(c.l) /\ ForAllPlain(c.r)
    [] c.k = "not" -> ForAllPlain(c.c)
    [] OTHER -> TRUE
Mech4EqualsSem ==
  (done # <<>> /\ ForAllPlain(done[1].cond)) => \A d1 \in 1..2, d2 \in 2..3 :
     LET q == MQ(done[1], d1, d2)
     IN \A k \in 1..2 : Mech3Sound(q, RefW, k) /\ Mech3Complete(q, RefW, k)
=============================================================================
