------------------------------ MODULE ModeOps ------------------------------
(* Symbolic mode and expression context (C08).                            *)
(* Layer A (what the API promises): the mode is determined by the stack of *)
(* open blocks alone; iterator operations never change it.                 *)
(* Layer B (how the code does it): one context variable `cv`; every block  *)
(* saves the previous value and restores it on exit; a result iterator     *)
(* switches the mode off while it computes - either around each step       *)
(* (IterHoldsMode = FALSE) or, as the library did before commit            *)
(* "fix: An.evaluate ...", for as long as the generator is suspended       *)
(* (IterHoldsMode = TRUE, a named deviation).                              *)
EXTENDS Naturals, Sequences, FiniteSets, TLC

CONSTANTS NIter,          \* result iterators
          NRows,          \* rows each iterator can deliver
          IterHoldsMode

\* block kinds: sym = symbolic_mode(), rule = rule_mode(), symq = symbolic_mode(q), ruleq = rule_mode(q), withq = `with q:`
Kinds == {"sym", "rule", "symq", "ruleq", "withq"}
ModeOf(kind, outer) == CASE kind \in {"sym", "symq"} -> "query"
                         [] kind \in {"rule", "ruleq"} -> "rule"
                         [] kind = "withq" -> outer
Pushes(kind) == kind \in {"symq", "ruleq", "withq"}

\* ---------------- Layer A ----------------
\* a = [blocks : Seq(kind), iters : [1..NIter -> [st, left]]]   st: "unborn" | "live" | "done"
InitA == [blocks |-> <<>>, iters |-> [i \in 1..NIter |-> [st |-> "unborn", left |-> NRows]]]
RECURSIVE ExpModeOf(_)
ExpModeOf(blocks) == IF blocks = <<>> THEN "none"
                     ELSE ModeOf(blocks[Len(blocks)], ExpModeOf(SubSeq(blocks, 1, Len(blocks) - 1)))
ExpMode(a) == ExpModeOf(a.blocks)
ExpDepth(a) == Cardinality({j \in 1..Len(a.blocks) : Pushes(a.blocks[j])})

\* events: [op, kind, how, i]; PreA = the harness may do this now
PreA(ev, a, maxBlocks) ==
  CASE ev.op = "enter" -> Len(a.blocks) < maxBlocks
    [] ev.op = "exit"  -> a.blocks # <<>>
    [] ev.op = "new"   -> a.iters[ev.i].st = "unborn"
    [] ev.op \in {"next", "close", "drop", "drain"} -> a.iters[ev.i].st = "live"
    [] ev.op = "evalthe" -> TRUE               \* the(...).evaluate(): a complete evaluation, anywhere
ApplyA(ev, a) ==
  CASE ev.op = "enter" -> [a EXCEPT !.blocks = Append(@, ev.kind)]
    [] ev.op = "exit"  -> [a EXCEPT !.blocks = SubSeq(@, 1, Len(@) - 1)]
    [] ev.op = "new"   -> [a EXCEPT !.iters[ev.i].st = "live"]
    [] ev.op = "next"  -> IF a.iters[ev.i].left = 0 THEN [a EXCEPT !.iters[ev.i].st = "done"]
                          ELSE [a EXCEPT !.iters[ev.i].left = @ - 1]
    [] ev.op \in {"close", "drop", "drain"} -> [a EXCEPT !.iters[ev.i].st = "done", !.iters[ev.i].left = 0]
    [] ev.op = "evalthe" -> a
\* what `next` returns: a row while some are left, then StopIteration
ExpNext(ev, a) == IF a.iters[ev.i].left = 0 THEN "stop" ELSE "row"

\* ---------------- Layer B ----------------
\* m = [cv, bprev : Seq(mode), iprev : [1..NIter -> mode], started : [1..NIter -> BOOLEAN]]
InitM == [cv |-> "none", bprev |-> <<>>, iprev |-> [i \in 1..NIter |-> "none"], started |-> [i \in 1..NIter |-> FALSE]]
ApplyM(ev, a, m) ==
  CASE ev.op = "enter" -> [m EXCEPT !.bprev = Append(@, m.cv), !.cv = ModeOf(ev.kind, m.cv)]
    [] ev.op = "exit"  -> [m EXCEPT !.cv = IF a.blocks[Len(a.blocks)] = "withq" THEN m.cv ELSE m.bprev[Len(m.bprev)],
                                    !.bprev = SubSeq(@, 1, Len(@) - 1)]
    [] ev.op = "new"   -> m
    [] ev.op = "next"  ->
         IF ~IterHoldsMode THEN m          \* mode switched off around the step and restored before the value is handed out
         ELSE IF ~m.started[ev.i]
              THEN IF a.iters[ev.i].left = 0 THEN m      \* entered and left the iterator's own block in one step
                   ELSE [m EXCEPT !.started[ev.i] = TRUE, !.iprev[ev.i] = m.cv, !.cv = "none"]
              ELSE IF a.iters[ev.i].left = 0 THEN [m EXCEPT !.cv = m.iprev[ev.i], !.started[ev.i] = FALSE]
                   ELSE m
    [] ev.op \in {"close", "drop", "drain"} ->
         IF IterHoldsMode /\ m.started[ev.i] THEN [m EXCEPT !.cv = m.iprev[ev.i], !.started[ev.i] = FALSE] ELSE m
    [] ev.op = "evalthe" -> m                  \* switches the mode off for the evaluation and restores what it found
===========================================================================
