------------------------------ MODULE RefWorld ------------------------------
(* A fixed reference world for theorems checked on the specification itself. *)
EXTENDS EQLValues
O(n, m, s, items, t, o, ref, refs) ==
  [cls |-> "A", f |-> [n |-> IntV(n), m |-> IntV(m), s |-> [t |-> "str", v |-> s],
                        items |-> ListV([j \in 1..Len(items) |-> IntV(items[j])]),
                        t |-> [t |-> "tuple", v |-> [j \in 1..Len(t) |-> IntV(t[j])]],
                        o |-> o, ref |-> ObjV(ref), refs |-> ListV([j \in 1..Len(refs) |-> ObjV(refs[j])]),
                        d |-> [t |-> "dict", v |-> << <<[t |-> "str", v |-> <<1>>], IntV(m)>>, <<[t |-> "str", v |-> <<2>>], IntV(n)>> >>]]]
RefW == [objs |-> << O(0, 1, <<>>, <<>>, <<0, 1>>, NoneV, 2, <<>>),
                     O(1, 1, <<1>>, <<0>>, <<1, 0>>, IntV(0), 3, <<1>>),
                     O(2, 0, <<1, 2>>, <<1, 2>>, <<2, 2>>, IntV(1), 1, <<2, 3>>),
                     O(1, 2, <<2>>, <<0, 1>>, <<0, 0>>, NoneV, 4, <<4, 1>>) >>]
=============================================================================
