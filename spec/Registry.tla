------------------------------ MODULE Registry ------------------------------
(* Histories interleaving concrete construction (three styles, three levels *)
(* of a class hierarchy), symbolic construction, rule inference, registry   *)
(* clearing and no-domain queries at every level.                           *)
EXTENDS RegistryOps, Json
CONSTANTS MaxLen,
          Hier       \* "dataclass": Base <- Mid <- Leaf;  "ownnew": Own (hand-written __new__) <- OwnSub
Classes == IF Hier = "dataclass" THEN {"Base", "Mid", "Leaf"} ELSE {"Own", "OwnSub"}
Root == IF Hier = "dataclass" THEN "Base" ELSE "Own"
VARIABLES s, hist
vars == <<s, hist>>
Events == [op : {"construct"}, cls : Classes, style : {"pos", "kw", "default"}, n : {0}, T : {"-"}]
          \cup [op : {"symconstruct"}, cls : Classes, style : {"kw", "default"}, n : {0}, T : {"-"}]
          \cup [op : {"infer"}, cls : {"P"}, style : {"-"}, n : {0, 1, 2}, T : {"-"}]
          \cup [op : {"clear"}, cls : {"-"}, style : {"-"}, n : {0}, T : {"-"}]
          \* style "named": let(T, name = "v"); "an": an(T) / an(has_type = T) shorthand
          \cup [op : {"query"}, cls : {"-"}, style : {"-", "named", "an"}, n : {0}, T : Classes \cup {"P"}]
          \cup [op : {"declare"}, cls : {"-"}, style : {"-"}, n : {0}, T : IF Hier = "dataclass" THEN {"Base", "Mid"} ELSE Classes]
          \cup [op : {"evalvar"}, cls : {"-"}, style : {"-"}, n : 1..2, T : {"-"}]
Init == s = InitS /\ hist = <<>>
\* rule inference takes its n bindings from n registered instances
Enabled(ev) == /\ (ev.op = "infer" => ev.n <= Cardinality(Expected(Root, s)))
               /\ (ev.op = "declare" => Len(s.decl) < 2)
               \* a declared variable is evaluated once (re-evaluating one variable object after the registry grew is
               \* outside C14: its domain is memoised)
               /\ (ev.op = "evalvar" => ev.n <= Len(s.decl) /\ ~\E j \in 1..Len(hist) : hist[j].op = "evalvar" /\ hist[j].n = ev.n)
Do(ev) == Enabled(ev) /\ s' = Apply(ev, s) /\ hist' = Append(hist, ev)
Next == \E ev \in Events : Do(ev)
Spec == Init /\ [][Next]_vars
Bound == Len(hist) <= MaxLen
View == s
\* the registry only grows between clearings, and indices are never reused
IndicesUnique == \A i, j \in 1..Len(s.reg) : i # j => s.reg[i].idx # s.reg[j].idx
SubtypeMonotone == IF Hier = "dataclass"
                   THEN Expected("Leaf", s) \subseteq Expected("Mid", s) /\ Expected("Mid", s) \subseteq Expected("Base", s)
                   ELSE Expected("OwnSub", s) \subseteq Expected("Own", s)
SymbolicIsInert == [][hist' # hist /\ hist'[Len(hist')].op = "symconstruct" => s' = s]_vars
\* export histories that end with a query (the observation that is judged)
Export == (Len(hist) = MaxLen /\ hist[MaxLen].op \in {"query", "evalvar"}) => PrintT(<<"BEH", ToJson(hist)>>)
=============================================================================
