------------------------------ MODULE Registry ------------------------------
(* Histories interleaving concrete construction (three styles, three levels *)
(* of a class hierarchy), symbolic construction, rule inference, registry   *)
(* clearing and no-domain queries at every level.                           *)
EXTENDS RegistryOps, Json
CONSTANTS MaxLen
VARIABLES s, hist
vars == <<s, hist>>
Events == [op : {"construct"}, cls : {"Base", "Mid", "Leaf"}, style : {"pos", "kw", "default"}, n : {0}, T : {"-"}]
          \cup [op : {"symconstruct"}, cls : {"Base", "Mid", "Leaf"}, style : {"kw", "default"}, n : {0}, T : {"-"}]
          \cup [op : {"infer"}, cls : {"P"}, style : {"-"}, n : {0, 1, 2}, T : {"-"}]
          \cup [op : {"clear"}, cls : {"-"}, style : {"-"}, n : {0}, T : {"-"}]
          \cup [op : {"query"}, cls : {"-"}, style : {"-"}, n : {0}, T : {"Base", "Mid", "Leaf", "P"}]
Init == s = InitS /\ hist = <<>>
\* rule inference takes its n bindings from n registered instances
Enabled(ev) == ev.op = "infer" => ev.n <= Cardinality(Expected("Base", s))
Do(ev) == Enabled(ev) /\ s' = Apply(ev, s) /\ hist' = Append(hist, ev)
Next == \E ev \in Events : Do(ev)
Spec == Init /\ [][Next]_vars
Bound == Len(hist) <= MaxLen
View == s
\* the registry only grows between clearings, and indices are never reused
IndicesUnique == \A i, j \in 1..Len(s.reg) : i # j => s.reg[i].idx # s.reg[j].idx
SubtypeMonotone == Expected("Leaf", s) \subseteq Expected("Mid", s) /\ Expected("Mid", s) \subseteq Expected("Base", s)
SymbolicIsInert == [][hist' # hist /\ hist'[Len(hist')].op = "symconstruct" => s' = s]_vars
\* export histories that end with a query (the observation that is judged)
Export == (Len(hist) = MaxLen /\ hist[MaxLen].op = "query") => PrintT(<<"BEH", ToJson(hist)>>)
=============================================================================
