----------------------------- MODULE EQLSem -----------------------------
(* Layer A: what a query means.  A denotational semantics of the query   *)
(* language over an abstract syntax, written as recursive operators.     *)
(* It says nothing about how the library computes.                       *)
(*                                                                       *)
(* World   W = [objs |-> Seq([cls, f])]    heap; f is a record of values  *)
(* Query   q = [vars  |-> Seq([cls, dom])]  declared variables, dom is a  *)
(*                                          sequence of heap indices      *)
(*              flats |-> Seq(expr)         flatten(e) nodes: derived     *)
(*                                          variables, slot NVars+j       *)
(*              bound |-> Seq(Nat)          variables not enumerated at   *)
(*                                          top level (universal/aggreg.) *)
(*              sel   |-> Seq(expr), cond |-> condition, desc, ... ]      *)
(* env : sequence of values, one slot per variable then per flatten      *)
EXTENDS EQLValues, SequencesExt

\* ---- class hierarchy of the harness world (harness/world.py) ----
Supers(cls) ==
  CASE cls = "A"    -> {"A"}
    [] cls = "B"    -> {"B"}
    [] cls = "Base" -> {"Base"}
    [] cls = "Mid"  -> {"Mid", "Base"}
    [] cls = "Leaf" -> {"Leaf", "Mid", "Base"}
    [] cls = "Other" -> {"Other"}
    [] OTHER -> {cls}
IsInst(W, o, T) == T \in Supers(W.objs[o].cls)

NVars(q) == Len(q.vars)
NSlots(q) == Len(q.vars) + Len(q.flats)
\* slots that are not enumerated by the query itself: variables quantified or aggregated inside the condition, and
\* flattened expressions that occur only under an aggregation
BoundSet(q) == {q.bound[i] : i \in 1..Len(q.bound)}
               \cup (IF "boundflats" \in DOMAIN q THEN {Len(q.vars) + q.boundflats[i] : i \in 1..Len(q.boundflats)} ELSE {})

\* ---- user-level methods and predicates (mirrors harness/world.py) ----
Method(m, recv, arg, W) ==
  CASE m = "n_ge"     -> BoolV(NumOf(W.objs[recv.v].f.n) >= arg.v)
    [] m = "n_plus"   -> IntV(NumOf(W.objs[recv.v].f.n) + arg.v)
    [] m = "is_small" -> BoolV(NumOf(W.objs[recv.v].f.n) < 2)
    [] m = "items_copy" -> W.objs[recv.v].f.items
    [] m = "startswith" -> BoolV(IsPrefixSeq(arg.v, recv.v))
    [] m = "count"    -> IntV(Cardinality({i \in 1..Len(recv.v) : PyEq(recv.v[i], arg)}))

PredHolds(p, a) ==
  CASE p = "p_lt"   -> PyLt(a[1], a[2])
    [] p = "p_eq"   -> PyEq(a[1], a[2])
    [] p = "p_pos"  -> NumOf(a[1]) > 0
    [] p = "p_true" -> TRUE
    [] p = "p_qge2" -> NumOf(a[1]) >= 2        \* its body runs a query of its own

RECURSIVE Val(_, _, _, _), Holds(_, _, _, _), Extend(_, _, _, _, _), ConcatFrom(_, _, _, _, _, _), Side(_, _, _, _)

FlattenSeqs(ss) == FoldLeft(LAMBDA acc, s : acc \o s, <<>>, ss)

\* candidate values of slot k given the earlier slots
SlotVals(q, W, k, env) ==
  IF k <= NVars(q)
  THEN LET v == q.vars[k]
           \* a variable whose domain is itself a query - let(T, domain=an(entity(b, c))) - ranges over that query's
           \* solutions: the members of the list that satisfy c (domc, a condition on the variable itself)
           InDom(o) == "domc" \notin DOMAIN v
                       \/ Holds(v.domc, [i \in 1..NSlots(q) |-> IF i = k THEN ObjV(o) ELSE NoneV], q, W)
           d == SelectSeq(v.dom, LAMBDA o : IsInst(W, o, v.cls) /\ InDom(o))
       IN [i \in 1..Len(d) |-> ObjV(d[i])]
  ELSE Elems(Val(q.flats[k - NVars(q)], env, q, W))

\* variables (slot numbers) an expression mentions
RECURSIVE SlotsOf(_, _)
SlotsOf(e, q) ==
  CASE e.k = "var"  -> {e.i}
    [] e.k = "lit"  -> {}
    [] e.k \in {"attr", "idx", "mcall"} -> SlotsOf(e.e, q)
    [] e.k = "flat" -> {NVars(q) + e.j} \cup SlotsOf(q.flats[e.j], q)
    [] e.k = "concat" -> {}
    [] e.k = "sub"  -> {e.i}

\* concatenate(e): every element of e over every assignment of e's
\* variables, in domain order then inner order
ConcatFrom(e, q, W, slots, k, env) ==
  IF k > NSlots(q) THEN (IF Side(e, env, q, W) THEN Elems(Val(e, env, q, W)) ELSE <<>>)   \* a sub-query inside e restricts
  ELSE IF k \notin slots THEN ConcatFrom(e, q, W, slots, k + 1, Append(env, NoneV))
  ELSE LET c == SlotVals(q, W, k, env)
       IN FlattenSeqs([i \in 1..Len(c) |-> ConcatFrom(e, q, W, slots, k + 1, Append(env, c[i]))])

Val(e, env, q, W) ==
  CASE e.k = "var"  -> env[e.i]
    [] e.k = "lit"  -> e.v
    [] e.k = "attr" -> W.objs[Val(e.e, env, q, W).v].f[e.a]
    [] e.k = "idx"  -> GetItem(Val(e.e, env, q, W), e.key)
    [] e.k = "mcall" -> Method(e.m, Val(e.e, env, q, W), e.arg, W)
    [] e.k = "flat" -> env[NVars(q) + e.j]
    [] e.k = "concat" -> ListV(ConcatFrom(e.e, q, W, SlotsOf(e.e, q), 1, <<>>))
    [] e.k = "sub"  -> env[e.i]

\* side conditions carried by sub-queries used as operands
Side(e, env, q, W) ==
  CASE e.k = "sub" -> Holds(e.c, env, q, W)
    [] e.k \in {"attr", "idx", "mcall"} -> Side(e.e, env, q, W)
    [] OTHER -> TRUE

\* all assignments of the slots in `slots` on top of env (a full-length env),
\* as a sequence (never a set: TLC cannot order values of different sorts)
RECURSIVE Assign(_, _, _, _, _)
Assign(q, W, slots, k, env) ==
  IF k > NSlots(q) THEN <<env>>
  ELSE IF k \notin slots THEN Assign(q, W, slots, k + 1, env)
  ELSE LET c == SlotVals(q, W, k, env)
       IN FlattenSeqs([i \in 1..Len(c) |-> Assign(q, W, slots, k + 1, [env EXCEPT ![k] = c[i]])])

Holds(c, env, q, W) ==
  CASE c.k = "true"  -> TRUE
    [] c.k = "cmp"   -> /\ Side(c.l, env, q, W) /\ Side(c.r, env, q, W)
                        /\ Cmp(c.op, Val(c.l, env, q, W), Val(c.r, env, q, W))
    [] c.k = "in"    -> /\ Side(c.item, env, q, W) /\ Side(c.cont, env, q, W)
                        /\ PyIn(Val(c.item, env, q, W), Val(c.cont, env, q, W))
    [] c.k = "truth" -> Side(c.e, env, q, W) /\ PyTruthy(Val(c.e, env, q, W))
    [] c.k = "and"   -> Holds(c.l, env, q, W) /\ Holds(c.r, env, q, W)
    [] c.k = "or"    -> Holds(c.l, env, q, W) \/ Holds(c.r, env, q, W)
    [] c.k = "not"   -> ~Holds(c.c, env, q, W)
    [] c.k = "pred"  -> PredHolds(c.p, [i \in 1..Len(c.args) |-> Val(c.args[i], env, q, W)])
    [] c.k = "subq"  -> Holds(c.c, env, q, W)
    [] c.k = "hastype" -> IsInst(W, Val(c.e, env, q, W).v, c.T)
    [] c.k = "chain" -> IF c.op = "and" THEN \A j \in 1..Len(c.cs) : Holds(c.cs[j], env, q, W)
                        ELSE \E j \in 1..Len(c.cs) : Holds(c.cs[j], env, q, W)
    [] c.k = "conj"  -> \A j \in 1..Len(c.cs) : Holds(c.cs[j], env, q, W)
    [] c.k = "forall" ->
         \* for every value of the universal variable (restricted to the solutions of a sub-query, if it is one)
         LET us == {c.uv[i] : i \in 1..Len(c.uv)}
             as == Assign(q, W, us, 1, env)
         IN \A j \in 1..Len(as) : Side(c.ue, as[j], q, W) => Holds(c.c, as[j], q, W)

\* C10 speaks about non-empty universal domains: is every for_all of the condition over a non-empty domain?
RECURSIVE UniversalsNonEmpty(_, _, _)
UniversalsNonEmpty(c, q, W) ==
  CASE c.k = "forall" ->
         LET us == {c.uv[i] : i \in 1..Len(c.uv)}
             as == Assign(q, W, us, 1, [i \in 1..NSlots(q) |-> NoneV])
         IN \E j \in 1..Len(as) : Side(c.ue, as[j], q, W)
    [] c.k \in {"and", "or"} -> UniversalsNonEmpty(c.l, q, W) /\ UniversalsNonEmpty(c.r, q, W)
    [] c.k = "not" -> UniversalsNonEmpty(c.c, q, W)
    [] OTHER -> TRUE

\* all full environments, in domain order (slot 1 outermost); bound slots
\* hold a placeholder
Extend(q, W, k, env, bs) ==
  IF k > NSlots(q) THEN <<env>>
  ELSE IF k \in bs THEN Extend(q, W, k + 1, Append(env, NoneV), bs)
  ELSE LET c == SlotVals(q, W, k, env)
       IN FlattenSeqs([i \in 1..Len(c) |-> Extend(q, W, k + 1, Append(env, c[i]), bs)])

\* predicate-form terms T(From(d), f = e, ...): one equality per given field (C13)
VarFields(v) == IF "fields" \in DOMAIN v THEN v.fields ELSE <<>>
FieldsHold(q, env, W) ==
  \A i \in 1..NVars(q) : \A j \in 1..Len(VarFields(q.vars[i])) :
     LET fc == VarFields(q.vars[i])[j]
     IN i \in BoundSet(q) \/ PyEq(W.objs[env[i].v].f[fc.f], Val(fc.e, env, q, W))

EnvSeq(q, W) == Extend(q, W, 1, <<>>, BoundSet(q))
\* the condition a query stands for: not_ applied to the descriptor itself - not_(entity(x, c1, c2)) - negates the
\* conjunction of the descriptor's conditions
TopCond(q) == IF "notdesc" \in DOMAIN q /\ q.notdesc THEN [k |-> "not", c |-> q.cond, form |-> "fn"] ELSE q.cond
\* a selected expression on a sub-query - set_of([x, an(entity(y, c)).n]) - restricts y to the sub-query's solutions
SelSides(q, env, W) == \A k \in 1..Len(q.sel) : Side(q.sel[k], env, q, W)
SatSeq(q, W) == SelectSeq(EnvSeq(q, W), LAMBDA env : Holds(TopCond(q), env, q, W) /\ FieldsHold(q, env, W) /\ SelSides(q, env, W))
RowOf(q, W, env) == [k \in 1..Len(q.sel) |-> Val(q.sel[k], env, q, W)]
\* the rows of the query, one per satisfying assignment, in domain order
RowSeq(q, W) == LET s == SatSeq(q, W) IN [i \in 1..Len(s) |-> RowOf(q, W, s[i])]

\* ---- how results are compared (DESIGN section 5, rule 2) ----
FreeSlots(q) == (1..NSlots(q)) \ BoundSet(q)
SelSlots(q) == {IF q.sel[k].k = "var" THEN q.sel[k].i
                ELSE IF q.sel[k].k = "flat" THEN NVars(q) + q.sel[k].j
                ELSE IF q.sel[k].k = "sub" THEN q.sel[k].i ELSE 0 : k \in 1..Len(q.sel)}
\* a domain that lists an object twice: whether the duplicate is kept is not fixed by the
\* properties (only that it is the same on every evaluation), so such queries compare as sets
HasDupDomain(q) == \E k \in 1..NVars(q) : \E i, j \in 1..Len(q.vars[k].dom) : i # j /\ q.vars[k].dom[i] = q.vars[k].dom[j]
CompareMode(q) ==
  IF HasDupDomain(q) THEN "set"
  ELSE IF Cardinality(FreeSlots(q)) = 1 /\ Len(q.sel) = 1 /\ q.sel[1].k \in {"var", "sub"} /\ q.desc = "entity"
  THEN "seq"
  ELSE IF FreeSlots(q) \subseteq SelSlots(q) THEN "bag" ELSE "set"

SameRow(r1, r2) == Len(r1) = Len(r2) /\ \A k \in 1..Len(r1) : SameVal(r1[k], r2[k])
CountIn(s, r) == Cardinality({i \in 1..Len(s) : SameRow(s[i], r)})
HasRow(s, r) == \E i \in 1..Len(s) : SameRow(s[i], r)

\* verdict of comparing observed rows with the expected ones
RowsVerdict(mode, exp, obs) ==
  IF \E i \in 1..Len(obs) : ~HasRow(exp, obs[i]) THEN "rows.extra"
  ELSE IF \E i \in 1..Len(exp) : ~HasRow(obs, exp[i]) THEN "rows.missing"
  ELSE IF mode = "set" THEN "ok"
  ELSE IF \E i \in 1..Len(exp) : CountIn(exp, exp[i]) # CountIn(obs, exp[i]) THEN "rows.multiplicity"
  ELSE IF mode = "bag" THEN "ok"
  ELSE IF \E i \in 1..Len(exp) : ~SameRow(exp[i], obs[i]) THEN "rows.order"
  ELSE "ok"

\* `the`: unique solution or the matching exception
TheOutcome(q, W) ==
  LET r == RowSeq(q, W)
  IN IF Len(r) = 0 THEN [out |-> "NoSolutionFound", row |-> <<>>]
     ELSE IF Len(r) = 1 THEN [out |-> "value", row |-> r[1]]
     ELSE [out |-> "MultipleSolutionFound", row |-> <<>>]

\* ripple-down rule trees (C12).  node = [k = "node", tag, cond, ref, alts, edge] | [k = "nil"]; alts are the branches
\* written in the node's block with `alternative` / `next_rule`, in order, each with the branches written in its own block.
\* Chain: the members of the chain a node heads, in the order they are consulted (the order in which they were written).
RECURSIVE Chain(_)
Chain(n) == FlattenSeqs([j \in 1..Len(n.alts) |-> <<n.alts[j]>> \o Chain(n.alts[j])])
EdgeOf(n) == IF "edge" \in DOMAIN n THEN n.edge ELSE "alt"
\* Fire: the tags of the conclusions the tree produces for one assignment: the most specific applicable refinement
\* replaces what it refines; an alternative is consulted only where the branches before it did not fire; a branch
\* written with next_rule is always consulted as well.
RECURSIVE Fire(_, _, _, _), FireOwn(_, _, _, _), FireChain(_, _, _, _, _, _)
FireOwn(n, env, q, W) ==    \* n holds: its refinement (with the refinement's own chain) or its own conclusion
  LET r == Fire(n.ref, env, q, W) IN IF r # <<>> THEN r ELSE <<n.tag>>
FireChain(ch, j, acc, env, q, W) ==
  IF j > Len(ch) THEN acc
  ELSE LET own == IF Holds(ch[j].cond, env, q, W) THEN FireOwn(ch[j], env, q, W) ELSE <<>>
       IN FireChain(ch, j + 1, IF EdgeOf(ch[j]) = "next" THEN acc \o own ELSE IF acc # <<>> THEN acc ELSE own, env, q, W)
Fire(n, env, q, W) ==
  IF n.k = "nil" THEN <<>> ELSE FireChain(<<n>> \o Chain(n), 1, <<>>, env, q, W)
\* every assignment of the rule's variables is offered to the tree; a conclusion is P(a = x, b = tag [, c = y])
RuleSeq(q, W) ==
  LET es == EnvSeq(q, W)
  IN FlattenSeqs([i \in 1..Len(es) |->
       LET tags == Fire(q.tree, es[i], q, W)
       IN [j \in 1..Len(tags) |->
             \* q.concl = "second": the conclusions mention the second variable only, P(a = y, b = tag) - still one per assignment
             IF "concl" \in DOMAIN q /\ q.concl = "second" THEN [cls |-> "P", f |-> <<es[i][2], IntV(tags[j]), NoneV>>]
             ELSE [cls |-> "P", f |-> <<es[i][1], IntV(tags[j])>> \o (IF NVars(q) > 1 THEN <<es[i][2]>> ELSE <<>>)]]])

\* rule inference: one instance per satisfying assignment
HeadOf(q, W, env) == [cls |-> q.head.cls,
                      f |-> [k \in 1..Len(q.head.args) |-> Val(q.head.args[k].e, env, q, W)]]
\* a constructor argument that is a sub-query restricts the assignments to the sub-query's solutions
HeadSides(q, W, env) == \A k \in 1..Len(q.head.args) : Side(q.head.args[k].e, env, q, W)
InferSeq(q, W) == LET s == SelectSeq(SatSeq(q, W), LAMBDA env : HeadSides(q, W, env)) IN [i \in 1..Len(s) |-> HeadOf(q, W, s[i])]
=========================================================================
