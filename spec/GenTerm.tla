------------------------------ MODULE GenTerm ------------------------------
(* Generator of predicate-form terms (C13): T(From(d), f = v, ...) with      *)
(* constants, variables and nested terms as values, given by keyword or      *)
(* positionally after the domain; and of typed variables over mixed-type     *)
(* domains declared in different ways.  One Emit step per program.           *)
EXTENDS EQLSyntax, Json
CONSTANT Part      \* "fields" | "types" | "kwonly" | "subdom"

FC(f, style, e) == [f |-> f, style |-> style, e |-> e]
VarD(cls, decl, fields) == [cls |-> cls, decl |-> decl, fields |-> fields]

\* ---- part "fields": class A, signature order n, m, s, ..., ref ----
NVals == << LitI(0), LitI(1) >>
MVals == << LitI(0), LitI(2) >>
SVals == << LitS(<<>>), LitS(<<1>>) >>
OVals == << LitNone, LitI(0) >>           \* the optional field: None given explicitly is a constraint like any other
\* what the ref field may be constrained to: variable 2, declared plainly or as a nested term
Nested == << VarD("A", "let", <<>>), VarD("A", "term", <<FC("n", "kw", LitI(1))>>),
             VarD("A", "term", <<FC("n", "pos", LitI(0)), FC("m", "pos", LitI(0))>>), VarD("A", "term", <<FC("n", "pos", LitI(2)), FC("s", "kw", LitS(<<>>))>>) >>
Opt(vals) == << <<>> >> \o [j \in 1..Len(vals) |-> <<vals[j]>>]
\* style patterns: all keyword; or the signature prefix given positionally
Styles == << "kw", "pos" >>
FieldProgs ==
  Cat([sn \in 1..Len(Opt(NVals)) |-> Cat([sm \in 1..Len(Opt(MVals)) |-> Cat([ss \in 1..Len(Opt(SVals)) |->
  Cat([sr \in 1..(Len(Nested) + 1) |-> Cat([so \in 1..Len(Opt(OVals)) |-> Cat([st \in 1..Len(Styles) |->
    LET on == Opt(NVals)[sn]  om == Opt(MVals)[sm]  os == Opt(SVals)[ss]  oo == Opt(OVals)[so]
        style == Styles[st]
        \* positional arguments must form a prefix of the signature: n, then m, then s
        pn == style = "pos" /\ on # <<>>
        pm == pn /\ om # <<>>
        ps == pm /\ os # <<>>
        fields == (IF on = <<>> THEN <<>> ELSE <<FC("n", IF pn THEN "pos" ELSE "kw", on[1])>>)
                  \o (IF om = <<>> THEN <<>> ELSE <<FC("m", IF pm THEN "pos" ELSE "kw", om[1])>>)
                  \o (IF os = <<>> THEN <<>> ELSE <<FC("s", IF ps THEN "pos" ELSE "kw", os[1])>>)
                  \o (IF oo = <<>> THEN <<>> ELSE <<FC("o", "kw", oo[1])>>)
                  \o (IF sr = 1 THEN <<>> ELSE <<FC("ref", "kw", V(2))>>)
        vars == <<VarD("A", "term", fields)>> \o (IF sr = 1 THEN <<>> ELSE <<Nested[sr - 1]>>)
    IN IF style = "pos" /\ ~pn THEN <<>>          \* nothing positional to give: same as the keyword program
       ELSE << [vars |-> vars, desc |-> "entity", sel |-> <<V(1)>>, cond |-> TrueC, flats |-> <<>>, bound |-> <<>>] >>
  ])])])])])])

\* ---- part "types": hierarchy Base <- Mid <- Leaf, Other is no symbol ----
Decls == << "let", "from", "term" >>
TypeProgs ==
  Cat([c \in 1..3 |-> Cat([d \in 1..Len(Decls) |-> Cat([x \in 1..3 |->
    LET cls == <<"Base", "Mid", "Leaf">>[c]
        fields == IF Decls[d] = "term" THEN << <<FC("n", "kw", LitI(0))>>, <<FC("n", "pos", LitI(1))>>, <<FC("m", "kw", LitI(2))>> >>[x]
                  ELSE <<>>
        cond == IF Decls[d] = "term" THEN TrueC
                ELSE << TrueC, CmpC("ge", At(V(1), "n"), LitI(1)), CmpC("eq", At(V(1), "m"), LitI(0)) >>[x]
    IN << [vars |-> <<VarD(cls, Decls[d], fields)>>, desc |-> "entity", sel |-> <<V(1)>>, cond |-> cond,
           flats |-> <<>>, bound |-> <<>>] >>
  ])])])

\* ---- part "kwonly": class K declares its fields in the order a, w, b where w is keyword-only, so its constructor
\* ---- takes (a, b) positionally: positional values after the domain follow the constructor, not the field list
KProgs ==
  Cat([sa \in 1..3 |-> Cat([sb \in 1..3 |-> Cat([sw \in 1..2 |-> Cat([st \in 1..Len(Styles) |->
    LET oa == Opt(<<LitI(0), LitI(1)>>)[sa]  ob == Opt(<<LitI(0), LitI(2)>>)[sb]  ow == Opt(<<LitI(1)>>)[sw]
        style == Styles[st]
        pa == style = "pos" /\ oa # <<>>
        pb == pa /\ ob # <<>>
        fields == (IF oa = <<>> THEN <<>> ELSE <<FC("a", IF pa THEN "pos" ELSE "kw", oa[1])>>)
                  \o (IF ob = <<>> THEN <<>> ELSE <<FC("b", IF pb THEN "pos" ELSE "kw", ob[1])>>)
                  \o (IF ow = <<>> THEN <<>> ELSE <<FC("w", "kw", ow[1])>>)
    IN IF style = "pos" /\ ~pa THEN <<>>
       ELSE << [vars |-> <<VarD("K", "term", fields)>>, desc |-> "entity", sel |-> <<V(1)>>, cond |-> TrueC,
                flats |-> <<>>, bound |-> <<>>] >>
  ])])])])

\* ---- part "subdom": the supplied domain is itself a query: x = let(A, domain=an(entity(b, c(b)))) ----
DomConds == << CmpC("ge", At(V(1), "n"), LitI(1)), PredC("p_pos", <<At(V(1), "n")>>, "fn"), PredC("p_pos", <<At(V(1), "m")>>, "class"),
               OrC(CmpC("eq", At(V(1), "n"), LitI(0)), CmpC("ge", At(V(1), "m"), LitI(1)), "fn"), PredC("p_qge2", <<At(V(1), "n")>>, "fn") >>
OuterConds == << TrueC, CmpC("eq", At(V(1), "m"), LitI(0)), CmpC("ge", At(V(1), "n"), LitI(2)), PredC("p_lt", <<At(V(1), "n"), At(V(1), "m")>>, "fn") >>
SubDomProgs ==
  Cat([d \in 1..Len(DomConds) |-> [c \in 1..Len(OuterConds) |->
    [vars |-> << [cls |-> "A", decl |-> "subdom", fields |-> <<>>, domc |-> DomConds[d]] >>, desc |-> "entity", sel |-> <<V(1)>>,
     cond |-> OuterConds[c], flats |-> <<>>, bound |-> <<>>] ]])

Progs == IF Part = "fields" THEN FieldProgs ELSE IF Part = "types" THEN TypeProgs ELSE IF Part = "kwonly" THEN KProgs ELSE SubDomProgs
VARIABLE k
Init == k = 0
Emit == k < Len(Progs) /\ k' = k + 1
Spec == Init /\ [][Emit]_k
Export == k > 0 => PrintT(<<"PROG", ToJson(Progs[k])>>)
\* every positional field sits in front of every keyword field of the same term (what the API can express)
PositionalIsPrefix == \A p \in 1..Len(Progs) : \A v \in 1..Len(Progs[p].vars) :
   LET fs == Progs[p].vars[v].fields
   IN \A a, b \in 1..Len(fs) : (a < b /\ fs[b].style = "pos") => fs[a].style = "pos"
=============================================================================
