------------------------- MODULE ValuesSelfTest -------------------------
(* Validates EQLValues against CPython: tools/values_table.py records,   *)
(* for all pairs of a value universe, what CPython answers; this module  *)
(* requires the TLA+ operators to answer the same.                       *)
EXTENDS EQLValues, Json, IOUtils
Rows == ndJsonDeserialize(IOEnv.TRACE_FILE)
Bad(r) ==
  \/ PyTruthy(r.x) # r.truthy
  \/ PyEq(r.x, r.y) # r.eq
  \/ (r.ordered /\ PyLt(r.x, r.y) # r.lt)
  \/ (r.ordered /\ Cmp("le", r.x, r.y) # r.le)
  \/ (r.ordered /\ Cmp("ge", r.x, r.y) # r.ge)
  \/ (r.container /\ PyIn(r.x, r.y) # r.isin)
  \/ (r.x.t = "str" /\ r.y.t = "str" /\ IsPrefixSeq(r.y.v, r.x.v) # r.startswith)
ASSUME PrintT(<<"VALUES", Len(Rows), Cardinality({i \in 1..Len(Rows) : Bad(Rows[i])})>>)
ASSUME \A i \in 1..Len(Rows) : ~Bad(Rows[i])
VARIABLE x
Init == x = 0
Next == x' = x
=========================================================================
