---------------------------- MODULE RewriteCheck ----------------------------
(* Layer A sanity for C18: every rewrite of EQLSyntax!Variants preserves the *)
(* denotation - checked for every program of the generator on a reference    *)
(* world, every assignment.  (So a difference between the rows of a query    *)
(* and of its rewritten twin on the real library is the library's.)          *)
EXTENDS GenQuery, EQLSem, RefWorld

RefQ(p, cond) == [vars |-> [j \in 1..NV |-> [cls |-> "A", dom |-> <<1, 2, 3, 4>>]], flats |-> <<>>, bound |-> <<>>,
                  desc |-> p.desc, sel |-> p.sel, cond |-> cond]
SameMeaning(p, c2) ==
  LET q1 == RefQ(p, p.cond)
      q2 == RefQ(p, c2)
      es == EnvSeq(q1, RefW)
  IN \A j \in 1..Len(es) : Holds(q1.cond, es[j], q1, RefW) = Holds(q2.cond, es[j], q2, RefW)
RewritesSound == done # <<>> => \A j \in 1..Len(Variants(done[1].cond)) : SameMeaning(done[1], Variants(done[1].cond)[j])
=============================================================================
