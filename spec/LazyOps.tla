------------------------------ MODULE LazyOps ------------------------------
(* Demand-driven evaluation over a lazily supplied one-shot domain (C07). *)
(* The domain is a sequence of N elements; `qual` is the set of positions  *)
(* whose element satisfies the query's condition.                          *)
(* Layer A: a = [pulled, live, delivered]                                  *)
(*   pulled    how many elements the library has pulled from the user's    *)
(*             iterator so far (always a prefix, never an element twice)   *)
(*   live      an evaluation (result iterator) exists and is not finished  *)
(*   delivered results it has handed out                                   *)
EXTENDS Naturals, Sequences, FiniteSets, TLC

InitA == [pulled |-> 0, live |-> FALSE, started |-> FALSE, delivered |-> 0]
Max(x, y) == IF x > y THEN x ELSE y
\* position of the k-th qualifying element, 0 if there is none
KthPos(qual, k) == IF \E p \in qual : Cardinality({r \in qual : r <= p}) = k
                   THEN CHOOSE p \in qual : Cardinality({r \in qual : r <= p}) = k
                   ELSE 0

\* ops: "new" (evaluate()), "next", "close", "drain"
\* evaluate() may be called at any time: a still-live previous iterator is thereby abandoned (dropped)
PreA(op, a) == IF op = "new" THEN TRUE ELSE a.started
ApplyA(op, a, qual, N) ==
  CASE op = "new"   -> [a EXCEPT !.live = TRUE, !.started = TRUE, !.delivered = 0]     \* no work
    [] op = "next"  -> IF ~a.live THEN a
                       ELSE LET p == KthPos(qual, a.delivered + 1)
                            IN IF p = 0 THEN [a EXCEPT !.pulled = N, !.live = FALSE]
                               ELSE [a EXCEPT !.pulled = Max(@, p), !.delivered = @ + 1]
    [] op = "close" -> [a EXCEPT !.live = FALSE]
    [] op = "drain" -> IF ~a.live THEN a ELSE [a EXCEPT !.pulled = N, !.live = FALSE,
                                                        !.delivered = Cardinality(qual)]
\* what next returns: the position of the delivered element, 0 = StopIteration
ExpNext(a, qual) == IF ~a.live THEN 0 ELSE KthPos(qual, a.delivered + 1)
\* what drain returns: the remaining qualifying positions in order
ExpDrain(a, qual) == IF ~a.live THEN {} ELSE {p \in qual : Cardinality({r \in qual : r <= p}) > a.delivered}

\* Layer B: the memoising domain (hashed_data.py HashedIterable): `memo` elements already seen (a prefix of
\* the domain), the remainder still inside the user's iterator; an evaluation walks the memo first, then pulls.
\* m = [memo, epos]   epos = how far the live evaluation has walked
InitM == [memo |-> 0, epos |-> 0]
RECURSIVE Scan(_, _, _, _)
\* walk from position j: returns [memo, epos, found]
Scan(j, memo, qual, N) ==
  IF j > N THEN [memo |-> N, epos |-> N, found |-> 0]
  ELSE IF j \in qual THEN [memo |-> Max(memo, j), epos |-> j, found |-> j]
  ELSE Scan(j + 1, Max(memo, j), qual, N)
ApplyM(op, a, m, qual, N) ==
  CASE op = "new"   -> [m EXCEPT !.epos = 0]
    [] op = "next"  -> IF ~a.live THEN m
                       ELSE LET s == Scan(m.epos + 1, m.memo, qual, N) IN [memo |-> s.memo, epos |-> s.epos]
    [] op = "close" -> m
    [] op = "drain" -> IF ~a.live THEN m ELSE [memo |-> N, epos |-> N]
=============================================================================
