---------------------------- MODULE CacheIndexOps --------------------------
(* The result-cache index (cache_data.py: IndexedCache + SeenSet).       *)
(* Layer A: a reference store - a list of (binding, output) with          *)
(*          overwrite on equal binding - and what check / retrieve must  *)
(*          answer (C20).                                                *)
(* Layer B: the mechanism as the code has it - a nested dict keyed by    *)
(*          the sorted keys with a wildcard level for unbound keys, a    *)
(*          coverage list - with the descent strategy as a named switch. *)
(* A binding is a sequence of length NKeys over 0..NVals, 0 = unbound.   *)
EXTENDS Naturals, Sequences, FiniteSets, TLC, Json

CONSTANTS NKeys, NVals,
          PreferWildcard   \* TRUE: the code's descent (wildcard branch preferred for an unbound key,
                           \* concrete chain first for a bound key); FALSE: follow every matching branch

Keys == 1..NKeys
STAR == 0
AllB == [Keys -> 0..NVals]
Unbound == [k \in Keys |-> 0]
Bindings == AllB                      \* insertions under full, partial and (degenerate) empty bindings
Lookups == AllB

\* ---------------- Layer A: reference ----------------
Agree(b, lk) == \A k \in Keys : b[k] = 0 \/ lk[k] = 0 \/ b[k] = lk[k]
MergeB(lk, b) == [k \in Keys |-> IF b[k] # 0 THEN b[k] ELSE lk[k]]
Contained(b, lk) == \A k \in Keys : b[k] # 0 => lk[k] = b[k]
\* store: sequence of [b, o]
StorePut(store, b, o) == SelectSeq(store, LAMBDA e : e.b # b) \o <<[b |-> b, o |-> o]>>
RetrieveRef(store, lk) == {<<MergeB(lk, store[i].b), store[i].o>> : i \in {j \in 1..Len(store) : Agree(store[j].b, lk)}}
RetrieveRefCount(store, lk) == Cardinality({j \in 1..Len(store) : Agree(store[j].b, lk)})
CheckRef(store, lk) == \E i \in 1..Len(store) : Contained(store[i].b, lk)

\* ---------------- Layer B: mechanism ----------------
\* tree: function from full paths (value or STAR per key) to outputs; seen: coverage list; allseen flag
PathOf(b) == b
Children(tree, p) == {q[Len(p) + 1] : q \in {r \in DOMAIN tree : SubSeq(r, 1, Len(p)) = p}}
RECURSIVE Descend(_, _, _, _)
Descend(tree, lk, p, res) ==
  IF Len(p) = NKeys THEN {<<res, tree[p]>>}
  ELSE LET k == Len(p) + 1
           ch == Children(tree, p)
       IN IF lk[k] # 0
          THEN IF lk[k] \in ch
               THEN Descend(tree, lk, Append(p, lk[k]), res)
                    \cup (IF PreferWildcard \/ STAR \notin ch THEN {} ELSE Descend(tree, lk, Append(p, STAR), res))
               ELSE IF STAR \in ch THEN Descend(tree, lk, Append(p, STAR), res) ELSE {}
          ELSE IF PreferWildcard /\ STAR \in ch THEN Descend(tree, lk, Append(p, STAR), res)
               ELSE UNION {Descend(tree, lk, Append(p, c), IF c = STAR THEN res ELSE [res EXCEPT ![k] = c]) : c \in ch}
RetrieveMech(tree, lk) == IF DOMAIN tree = {} THEN {} ELSE Descend(tree, lk, <<>>, lk)
CheckMech(seen, allseen, lk) == allseen \/ \E i \in 1..Len(seen) : Contained(seen[i], lk)
EmptyTree == [x \in {} |-> 0]
TreePut(tree, b, o) == [q \in (DOMAIN tree) \cup {PathOf(b)} |-> IF q = PathOf(b) THEN o ELSE tree[q]]

===========================================================================
