--------------------------- MODULE TraceQuery ---------------------------
(* Batch validation of recorded executions of the real library against   *)
(* Layer A.  One JSON line per case:                                     *)
(*   [id, W, qs : Seq(query), evs : Seq(event)]                          *)
(* events (what the harness did and what the API returned):              *)
(*   drain   [qi, rows, exc]           list(q.evaluate())                *)
(*   partial [qi, rows, exc]           k results taken, then closed      *)
(*   raised  [qi, rows, exc, want]     a user predicate raised `want`    *)
(*   the     [qi, out, row]            the(...).evaluate()               *)
(*   infer   [qi, insts, exc]          infer(...).evaluate() drained     *)
(*   cfg     [..]                      configuration change, no check    *)
(* an event may carry eqto = j (j < its index, 0 = none): its row set     *)
(* must equal the row set observed by event j (metamorphic clause).      *)
(* TLC computes every expected value; the harness ships none.            *)
EXTENDS EQLMech3, Json, IOUtils

CONSTANT B3Judge    \* "obs": stage B3 must predict the observed rows;  "sem": stage B3 (with whatever descent the
                    \* configuration selects) must yield the denotation's rows - used to decide whether a wrong answer
                    \* is the consequence of the descent of IndexedCache.retrieve (finding F2) and of nothing else
Traces == ndJsonDeserialize(IOEnv.TRACE_FILE)

VARIABLE i
vars == <<i>>

ObsRows(ev) == ev.rows

PrefixVerdict(mode, exp, obs) ==
  IF \E j \in 1..Len(obs) : ~HasRow(exp, obs[j]) THEN "rows.extra"
  ELSE IF mode = "set" THEN "ok"
  ELSE IF \E j \in 1..Len(obs) : CountIn(obs, obs[j]) > CountIn(exp, obs[j]) THEN "rows.multiplicity"
  ELSE IF mode = "bag" THEN "ok"
  ELSE IF Len(obs) > Len(exp) \/ \E j \in 1..Len(obs) : ~SameRow(exp[j], obs[j]) THEN "rows.order"
  ELSE "ok"

\* rows with every object index moved down by d (twin worlds live in one heap)
OffRows(rows, d) == [j \in 1..Len(rows) |-> [k \in 1..Len(rows[j]) |->
                       IF rows[j][k].t = "obj" THEN ObjV(rows[j][k].v - d) ELSE rows[j][k]]]
SameRowSet(a, b) == (\A j \in 1..Len(a) : HasRow(b, a[j])) /\ (\A j \in 1..Len(b) : HasRow(a, b[j]))

SameRowBag(a, b) == Len(a) = Len(b) /\ \A j \in 1..Len(a) : CountIn(a, a[j]) = CountIn(b, a[j])

SameInst(x, y) == x.cls = y.cls /\ SameRow(x.f, y.f)
InstCount(s, x) == Cardinality({j \in 1..Len(s) : SameInst(s[j], x)})
SameInstBag(a, b) == Len(a) = Len(b) /\ \A j \in 1..Len(a) : InstCount(a, a[j]) = InstCount(b, a[j])
\* fresh: every produced instance must be a new object (where the conclusions mention every variable of the rule, so
\* that no two assignments build the same instance; otherwise the library may hand out the instance it built before)
\* (fresh = FALSE also means: a projection - several assignments build the same conclusion, which the library produces
\* once per distinct binding of the variables the conclusions mention; judged as a set, like a projected selection)
InferVerdictF(exp, obs, fresh) ==
  IF fresh /\ \E j \in 1..Len(obs) : ~obs[j].fresh THEN "infer.not-new"
  ELSE IF \E j \in 1..Len(obs) : InstCount(exp, obs[j]) = 0 THEN "infer.extra"
  ELSE IF \E j \in 1..Len(exp) : InstCount(obs, exp[j]) = 0 THEN "infer.missing"
  ELSE IF fresh /\ \E j \in 1..Len(exp) : InstCount(obs, exp[j]) # InstCount(exp, exp[j]) THEN "infer.multiplicity"
  ELSE "ok"
InferVerdict(exp, obs) == InferVerdictF(exp, obs, TRUE)

EvVerdict(t, j) ==
  LET ev == t.evs[j] IN
  IF ev.op \in {"cfg", "build"} THEN "ok"
  ELSE IF ev.symcalls > 0 THEN "predicate.ran-in-symbolic-mode"     \* user predicates always run concretely (C09)
  ELSE
  LET q == t.qs[ev.qi]
      W == t.W
  IN CASE ev.op = "drain" ->
            IF ~UniversalsNonEmpty(q.cond, q, W) THEN "ok"        \* empty universal domain: outside C10, not judged
            ELSE IF ev.exc # "none" THEN "exception"
            ELSE LET v == RowsVerdict(CompareMode(q), RowSeq(q, W), ev.rows)
                 IN IF v # "ok" THEN v
                    ELSE IF ev.eqto > 0 /\ ~SameRowSet(OffRows(ev.rows, ev.eqoff), t.evs[ev.eqto].rows)
                         THEN "rows.differs-from-twin"
                    ELSE IF ev.eqbag > 0 /\ ~SameRowBag(ev.rows, t.evs[ev.eqbag].rows)
                         THEN "rows.differs-from-earlier-evaluation"
                    ELSE IF ev.mutated THEN "user-data.mutated"
                    ELSE "ok"
       [] ev.op = "partial" ->
            IF ev.exc # "none" THEN "exception"
            ELSE PrefixVerdict(CompareMode(q), RowSeq(q, W), ev.rows)
       [] ev.op = "raised" ->
            IF ev.exc = "none" THEN RowsVerdict(CompareMode(q), RowSeq(q, W), ev.rows)   \* the fault did not fire
            ELSE IF ev.exc # ev.want THEN "exception.class"
            ELSE PrefixVerdict(CompareMode(q), RowSeq(q, W), ev.rows)
       [] ev.op = "abandon" -> IF ev.exc # "none" THEN "exception" ELSE "ok"     \* k results taken, iterator closed
       [] ev.op = "the" ->
            LET o == TheOutcome(q, W)
            IN IF ev.exc # "none" THEN "exception"
               ELSE IF ev.out # o.out THEN "the.outcome"
               ELSE IF o.out = "value" /\ ~SameRow(o.row, ev.row) THEN "the.value"
               ELSE "ok"
       [] ev.op = "rule" ->
            \* eqinst = j: the instances (class, field values) must be those event j observed, as a multiset - what C04 /
            \* C05 say about any query whatever its meaning; nosem: the tree uses branches whose meaning the listed
            \* properties do not fix (next_rule), so only that relation is judged
            IF ev.exc # "none" THEN "exception"
            ELSE LET sem == IF "nosem" \in DOMAIN ev /\ ev.nosem THEN "ok" ELSE InferVerdictF(RuleSeq(q, W), ev.insts, ~("concl" \in DOMAIN q /\ q.concl = "second"))
                 IN IF sem # "ok" THEN sem
                    ELSE IF "eqinst" \in DOMAIN ev /\ ev.eqinst > 0 /\ ~SameInstBag(ev.insts, t.evs[ev.eqinst].insts)
                         THEN "insts.differ-from-other-evaluation"
                    ELSE "ok"
       [] ev.op = "infer" ->
            IF ev.exc # "none" THEN "exception"
            ELSE InferVerdict(InferSeq(q, W), ev.insts)

\* ---- Layer B binding (model drift, never a violation) ----
\* the expression graph the library actually built (dumped by the harness) against EQLMech!Build
RECURSIVE SameExpr(_, _), SameTree(_, _)
SameExpr(a, b) ==
  /\ a.k = b.k
  /\ CASE a.k = "var"  -> a.i = b.i
       [] a.k = "lit"  -> SameVal(a.v, b.v)
       [] a.k = "attr" -> a.a = b.a /\ SameExpr(a.e, b.e)
       [] a.k = "idx"  -> SameVal(a.key, b.key) /\ SameExpr(a.e, b.e)
       [] a.k = "mcall" -> a.m = b.m /\ a.kw = b.kw /\ a.arg.t = b.arg.t /\ (a.arg.t = "noarg" \/ SameVal(a.arg, b.arg)) /\ SameExpr(a.e, b.e)
       [] OTHER -> FALSE
SameTree(g, m) ==
  /\ g.k = m.k
  /\ CASE g.k = "cmp"   -> g.op = m.op /\ g.inv = m.inv /\ SameExpr(g.l, m.l) /\ SameExpr(g.r, m.r)
       [] g.k = "in"    -> g.inv = m.inv /\ SameExpr(g.l, m.l) /\ SameExpr(g.r, m.r)
       [] g.k = "truth" -> g.inv = m.inv /\ SameExpr(g.e, m.e)
       [] g.k = "pred"  -> g.p = m.p /\ g.inv = m.inv /\ Len(g.args) = Len(m.args)
                           /\ \A j \in 1..Len(g.args) : SameExpr(g.args[j], m.args[j])
       [] g.k \in {"and", "elif"} -> SameTree(g.l, m.l) /\ SameTree(g.r, m.r)
       [] OTHER -> FALSE
\* the order in which the mechanism model yields the rows against the observed order, for one variable (where stage
\* B1 is exact; with several variables the order depends on duplicate suppression and cache replay: stages B2, B3)
OrderDrift(q, W, rows) ==
  LET m == MechRowSeq(q, W)
  IN NVars(q) = 1 /\ Len(m) = Len(rows) /\ (\A a, b \in 1..Len(m) : a # b => ~SameRow(m[a], m[b]))
     /\ \E j \in 1..Len(m) : ~SameRow(m[j], rows[j])
\* stage B2 (with duplicate suppression) predicts the exact row sequence of an evaluation made with the result caches
\* switched off (events flagged b2)
OrderDrift2(q, W, rows) ==
  LET m == MechRowSeq2(q, W)
  IN Len(m) # Len(rows) \/ \E j \in 1..Len(m) : ~SameRow(m[j], rows[j])
DriftFailures(t) ==
  IF "graphs" \notin DOMAIN t THEN {}
  ELSE {f \in {[id |-> t.id, at |-> j, clause |->
                   IF t.graphs[j].k = "none" THEN "ok"
                   ELSE IF ~SameTree(t.graphs[j], Build(t.qs[j].cond)) THEN "drift.graph"
                   ELSE IF \E e \in 1..Len(t.evs) : t.evs[e].op = "drain" /\ t.evs[e].qi = j /\ t.evs[e].exc = "none"
                                                        /\ t.evs[e].first /\ OrderDrift(t.qs[j], t.W, t.evs[e].rows)
                        THEN "drift.order"
                   ELSE IF \E e \in 1..Len(t.evs) : t.evs[e].op = "drain" /\ t.evs[e].qi = j /\ t.evs[e].exc = "none"
                                                        /\ t.evs[e].b2 /\ OrderDrift2(t.qs[j], t.W, t.evs[e].rows)
                        THEN "drift.order-b2"
                   ELSE "ok"] : j \in 1..Len(t.graphs)} : f.clause # "ok"}

\* stage B3 (with the operator result caches, the descent of the code) predicts the exact row sequence of the k-th
\* complete evaluation of a query object made with caching enabled (events flagged b3) - also where rows are lost (F2)
B3Drift(t) ==
  {f \in {[id |-> t.id, at |-> j, clause |->
             IF ~("b3" \in DOMAIN t.evs[j] /\ t.evs[j].b3) \/ t.evs[j].exc # "none" THEN "ok"
             ELSE LET qi == t.evs[j].qi
                      \* an evaluation that did not run to completion (abandoned, aborted by an exception) clears the
                      \* caches of its query: the count of cached evaluations starts again after it
                      Unfinished(e) == \/ t.evs[e].op = "partial" /\ Len(t.evs[e].rows) = t.evs[e].k    \* stopped before exhaustion
                                       \/ t.evs[e].op = "raised" /\ t.evs[e].exc # "none"
                      Evaluation(e) == t.evs[e].op \in {"drain", "partial", "raised"} /\ t.evs[e].qi = qi
                      cut == {e \in 1..j : Evaluation(e) /\ Unfinished(e)}
                      from == IF cut = {} THEN 0 ELSE CHOOSE e \in cut : \A e2 \in cut : e2 <= e
                      k == Cardinality({e \in (from + 1)..j : Evaluation(e)})
                      m == MechRowSeq3(t.qs[qi], t.W, k)
                      rows == t.evs[j].rows
                      r == RowSeq(t.qs[t.evs[j].qi], t.W)
                  IN IF B3Judge = "sem"
                     THEN (IF (\A x \in 1..Len(m) : HasRow(r, m[x])) /\ (\A x \in 1..Len(r) : HasRow(m, r[x])) THEN "ok"
                           ELSE "drift.b3-wrong-with-this-descent")
                     ELSE IF Len(m) # Len(rows) \/ \E x \in 1..Len(m) : ~SameRow(m[x], rows[x]) THEN "drift.order-b3" ELSE "ok"]
           : j \in 1..Len(t.evs)} : f.clause # "ok"}

CaseFailures(t) == {f \in {[id |-> t.id, at |-> j, clause |-> EvVerdict(t, j)] : j \in 1..Len(t.evs)} :
                      f.clause # "ok"}

Init == i = 1 /\ TLCSet(1, {}) /\ TLCSet(2, 0)
Step == /\ i <= Len(Traces)
        /\ LET f == CaseFailures(Traces[i]) \cup DriftFailures(Traces[i]) \cup B3Drift(Traces[i])
           IN /\ IF f = {} THEN TRUE ELSE TLCSet(1, TLCGet(1) \cup f)
              /\ TLCSet(2, i)
        /\ i' = i + 1
Spec == Init /\ [][Step]_vars

Post == /\ PrintT(<<"CHECKED", TLCGet(2)>>)
        /\ \A f \in TLCGet(1) : PrintT(<<"REJECT", f.id, f.at, f.clause>>)
        /\ TLCGet(2) = Len(Traces)
=========================================================================
