------------------------------ MODULE B3Debug ------------------------------
(* Working aid: print what stage B3 predicts for the queries of one recorded case. *)
EXTENDS EQLMech3, Json, IOUtils
T == ndJsonDeserialize(IOEnv.TRACE_FILE)[1]
VARIABLE i
Init == i = 1
Next == /\ i <= 3
        /\ PrintT(<<"B3", i, ToJson(MechRowSeq3(T.qs[1], T.W, i))>>)
        /\ PrintT(<<"SEM", ToJson(RowSeq(T.qs[1], T.W))>>)
        /\ i' = i + 1
Spec == Init /\ [][Next]_i
=============================================================================
