------------------------------ MODULE GenRule ------------------------------
(* Generator of ripple-down rule trees (C12): a node has a condition, one    *)
(* conclusion (identified by its tag), a refinement child and an alternative *)
(* sibling; trees are built by the actions the API offers inside a           *)
(* rule_mode(query) block - Add, `with refinement(c):`, `with alternative(c):`*)
(* and leaving a block - so BFS enumerates every tree up to MaxNodes once.   *)
EXTENDS EQLSyntax, Json
CONSTANTS MaxNodes, NConds, NV,
          WithNext,     \* TRUE: `with next_rule(c):` blocks are written too (a branch that is always consulted as well)
          SiblingRefs   \* TRUE: a block may hold a second `with refinement(c):` (it joins the chain the first one heads)

Nil == [k |-> "nil"]
\* alts: the alternatives written in this node's block, in order (each may have alternatives in its own block)
\* reflast: the refinement block was written after (some of) the alternative blocks of the same node
\* edge: how the node hangs on the chain it was written into - "alt" (with alternative) or "next" (with next_rule)
Node(tag, cond, ref, alts) == [k |-> "node", tag |-> tag, cond |-> cond, ref |-> ref, alts |-> alts, reflast |-> FALSE, edge |-> "alt"]

\* branch conditions over the base's variables
Conds ==
  Some(IF NV = 1
       THEN << CmpC("ge", At(V(1), "n"), LitI(1)), CmpC("eq", At(V(1), "m"), LitI(0)), CmpC("lt", At(V(1), "n"), At(V(1), "m")),
               Truth(At(V(1), "items")), CmpC("ne", At(V(1), "s"), LitS(<<>>)), NotC(CmpC("eq", At(V(1), "n"), LitI(2)), "fn") >>
       ELSE << CmpC("eq", At(V(1), "n"), At(V(2), "m")), CmpC("ge", At(V(1), "n"), LitI(1)), CmpC("lt", At(V(2), "n"), At(V(1), "m")),
               CmpC("eq", At(V(2), "m"), LitI(0)), CmpC("ne", At(V(1), "ref"), V(2)), Truth(At(V(2), "items")),
               \* (NConds > 6) disjunctions / a negated conjunction over the second variable alone
               OrC(CmpC("eq", At(V(2), "m"), LitI(0)), CmpC("ge", At(V(2), "n"), LitI(2)), "fn"),
               NotC(AndC(CmpC("ge", At(V(2), "n"), LitI(1)), CmpC("ne", At(V(2), "m"), LitI(1)), "fn"), "fn"),
               OrC(Truth(At(V(2), "items")), CmpC("eq", At(V(2), "n"), LitI(0)), "fn") >>, NConds)

\* the tree under construction is a stack of open nodes (the with-blocks entered so far); each frame remembers
\* how it hangs under its parent frame
VARIABLES open, n, done
vars == <<open, n, done>>
\* the base condition mentions every variable of the rule (C12 speaks of assignments matching the base conditions)
BaseConds == IF NV = 1 THEN Conds
             ELSE << CmpC("eq", At(V(1), "n"), At(V(2), "m")), CmpC("lt", At(V(2), "n"), At(V(1), "m")),
                     CmpC("ne", At(V(1), "ref"), V(2)), CmpC("ge", At(V(1), "n"), At(V(2), "n")) >>
Init == \E c \in 1..Len(BaseConds) : open = <<[node |-> Node(1, BaseConds[c], Nil, <<>>), as |-> "root"]>> /\ n = 1 /\ done = <<>>

Top == open[Len(open)]
\* `with refinement(c):` / `with alternative(c):` inside the block of the node on top of the stack
OpenBranch(kind, c) ==
  /\ done = <<>> /\ n < MaxNodes
  /\ (kind = "ref" => IF Top.node.ref = Nil THEN TRUE      \* at most two refinement blocks per branch
                      ELSE SiblingRefs /\ ~\E j \in 1..Len(Top.node.ref.alts) : Top.node.ref.alts[j].edge = "ref2")
  /\ LET second == kind = "ref" /\ Top.node.ref # Nil
     IN open' = Append(IF kind = "ref" /\ ~second THEN [open EXCEPT ![Len(open)].node.reflast = (Top.node.alts # <<>>)] ELSE open,
                       [node |-> [Node(n + 1, Conds[c], Nil, <<>>) EXCEPT !.edge = IF kind = "next" THEN "next"
                                                                                 ELSE IF second THEN "ref2" ELSE "alt"],
                        as |-> IF second THEN "ref2" ELSE kind])
  /\ n' = n + 1 /\ UNCHANGED done
\* leaving the innermost block attaches the finished node to its parent
CloseBranch ==
  /\ done = <<>> /\ Len(open) > 1
  /\ LET child == Top
         parent == open[Len(open) - 1]
         newParent == IF child.as = "ref" THEN [parent EXCEPT !.node.ref = child.node]
                      ELSE IF child.as = "ref2" THEN [parent EXCEPT !.node.ref.alts = Append(@, child.node)]
                      ELSE [parent EXCEPT !.node.alts = Append(@, child.node)]
     IN open' = Append(SubSeq(open, 1, Len(open) - 2), newParent)
  /\ UNCHANGED <<n, done>>
Finish == /\ done = <<>> /\ Len(open) = 1 /\ done' = <<open[1].node>> /\ UNCHANGED <<open, n>>
Next == \/ \E kind \in {"ref", "alt"} \cup (IF WithNext THEN {"next"} ELSE {}), c \in 1..Len(Conds) : OpenBranch(kind, c)
        \/ CloseBranch
        \/ Finish
Spec == Init /\ [][Next]_vars

RECURSIVE Size(_)
Size(t) == IF t.k = "nil" THEN 0 ELSE 1 + Size(t.ref) + FoldLeft(LAMBDA acc, x : acc + Size(x), 0, t.alts)
SizeOK == done # <<>> => Size(done[1]) = n /\ n <= MaxNodes
Export == done # <<>> => PrintT(<<"TREE", ToJson(done[1])>>)
=============================================================================
