INIT Init
NEXT Next
