---------------------------- MODULE TraceRegistry ----------------------------
(* Validation of recorded registry histories.  Events carry what the API     *)
(* showed: construct [isinst], symconstruct [symbolic, inits],               *)
(* infer [n, got (indices of the produced instances), fresh], query [T, res] *)
(* (res = construction indices of the returned objects, -1 = unknown object) *)
EXTENDS RegistryOps, Json, IOUtils
Traces == ndJsonDeserialize(IOEnv.TRACE_FILE)
VARIABLES tid, l, s
tvars == <<tid, l, s>>

Clause(ev, st) ==
  IF ev.exc # "none" THEN "exception"
  ELSE CASE ev.op = "construct" -> IF ~ev.isinst THEN "construct.not-an-instance"
                                   ELSE IF ev.inits # Apply(ev, st).inits THEN "construct.init-count" ELSE "ok"
         [] ev.op = "symconstruct" -> IF ~ev.symbolic THEN "symbolic.returned-instance"
                                      ELSE IF ev.inits # st.inits THEN "symbolic.ran-init" ELSE "ok"
         [] ev.op = "infer" -> IF Len(ev.got) # ev.n THEN "infer.count"
                               ELSE IF \E j \in 1..Len(ev.got) : ev.got[j] # st.next + j - 1 THEN "infer.not-new"
                               ELSE "ok"
         [] ev.op = "clear" -> "ok"
         [] ev.op = "declare" -> "ok"
         [] ev.op = "evalvar" ->
              LET exp == Expected(st.decl[ev.n], st)         \* the live registry at evaluation time
                  got == {ev.res[j] : j \in 1..Len(ev.res)}
              IN IF \E x \in got : x \notin exp THEN "query.extra"
                 ELSE IF \E x \in exp : x \notin got THEN "query.missing"
                 ELSE IF Len(ev.res) # Cardinality(exp) THEN "query.duplicate"
                 ELSE "ok"
         [] ev.op = "query" ->
              LET exp == Expected(ev.T, st)
                  got == {ev.res[j] : j \in 1..Len(ev.res)}
              IN IF \E x \in got : x \notin exp THEN "query.extra"
                 ELSE IF \E x \in exp : x \notin got THEN "query.missing"
                 ELSE IF Len(ev.res) # Cardinality(exp) THEN "query.duplicate"
                 ELSE "ok"

Init == tid = 1 /\ l = 1 /\ s = InitS /\ TLCSet(1, {}) /\ TLCSet(2, 0)
Step == /\ tid <= Len(Traces)
        /\ IF l > Len(Traces[tid].evs)
           THEN /\ TLCSet(2, tid) /\ tid' = tid + 1 /\ l' = 1 /\ s' = InitS
           ELSE LET ev == Traces[tid].evs[l]
                    c == Clause(ev, s)
                IN IF c = "ok"
                   THEN tid' = tid /\ l' = l + 1 /\ s' = Apply(ev, s)
                   ELSE /\ TLCSet(1, TLCGet(1) \cup {[id |-> Traces[tid].id, at |-> l, clause |-> c]})
                        /\ TLCSet(2, tid) /\ tid' = tid + 1 /\ l' = 1 /\ s' = InitS
Spec == Init /\ [][Step]_tvars
Post == /\ PrintT(<<"CHECKED", TLCGet(2)>>)
        /\ \A f \in TLCGet(1) : PrintT(<<"REJECT", f.id, f.at, f.clause>>)
        /\ TLCGet(2) = Len(Traces)
=============================================================================
