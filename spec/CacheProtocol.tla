---------------------------- MODULE CacheProtocol ----------------------------
(* Layer B: the life cycle of one operator result cache across evaluations   *)
(* (symbolic.py: Comparator / AND / ElseIf with cache_data.IndexedCache).     *)
(*   - the first lookup of an evaluation (`check` with an empty assignment)   *)
(*     marks the cache as covering everything (SeenSet.all_seen) and answers  *)
(*     "not covered"; the evaluation then computes its results one by one and *)
(*     inserts each into the cache;                                           *)
(*   - a later evaluation whose first lookup finds the mark is served from    *)
(*     the cache and computes nothing;                                        *)
(*   - an evaluation may be abandoned (iterator closed/dropped) or aborted by *)
(*     an exception at any point.                                             *)
(* Obligation (C04, C05, C07): an evaluation served from the cache returns    *)
(* what a computing evaluation returns.  The repairs are named switches, so   *)
(* TLC shows which step of the protocol each one is needed for.               *)
EXTENDS Naturals, FiniteSets, Sequences, TLC
CONSTANTS N,                   \* results of the query (the truth is 1..N)
          ClearOnAbort,        \* commit "fix: an abandoned or aborted evaluation ...": clear the caches of an unfinished evaluation
          ClearResetsMark,     \* SeenSet.clear() resets all_seen
          ClearSkipsEmpty,     \* a (hypothetical) clear() that returns early on an empty cache
          MaxLen

VARIABLES mark,       \* SeenSet.all_seen
          entries,    \* results stored in the cache
          running,    \* an evaluation is computing
          produced,   \* how many results it has produced
          last,       \* what the last finished evaluation returned
          done,       \* some evaluation has finished
          len
vars == <<mark, entries, running, produced, last, done, len>>
Truth == 1..N
Init == mark = FALSE /\ entries = {} /\ running = FALSE /\ produced = 0 /\ last = {} /\ done = FALSE /\ len = 0

Clear == /\ entries' = {}
         /\ mark' = IF ClearResetsMark /\ ~(ClearSkipsEmpty /\ entries = {}) THEN FALSE ELSE mark
\* q.evaluate() and the first next(): the first lookup
Start == /\ ~running /\ len' = len + 1
         /\ IF mark
            THEN /\ last' = entries /\ done' = TRUE /\ UNCHANGED <<mark, entries, running, produced>>     \* served from the cache
            ELSE /\ mark' = TRUE /\ running' = TRUE /\ produced' = 0 /\ UNCHANGED <<entries, last, done>>
Produce == /\ running /\ produced < N /\ len' = len + 1
           /\ entries' = entries \cup {produced + 1} /\ produced' = produced + 1
           /\ UNCHANGED <<mark, running, last, done>>
Finish == /\ running /\ produced = N /\ len' = len + 1
          /\ running' = FALSE /\ last' = 1..produced /\ done' = TRUE /\ UNCHANGED <<mark, entries, produced>>
Abort == /\ running /\ len' = len + 1 /\ running' = FALSE /\ UNCHANGED <<produced, last, done>>
         /\ IF ClearOnAbort THEN Clear ELSE UNCHANGED <<mark, entries>>
Next == Start \/ Produce \/ Finish \/ Abort
Spec == Init /\ [][Next]_vars
Bound == len <= MaxLen

\* every finished evaluation - computed or served from the cache - returned the truth
ServesTruth == done => last = Truth
\* the mark is set only while the cache is being filled or is complete
MarkMeansComplete == (mark /\ ~running) => entries = Truth
=============================================================================
