-------------------------------- MODULE Lazy --------------------------------
(* Every history of partial and full evaluations over every qualifying set. *)
EXTENDS LazyOps, Json
CONSTANTS N, MaxLen
VARIABLES qual, a, m, hist
vars == <<qual, a, m, hist>>
Ops == {"new", "next", "close", "drain"}
Init == qual \in SUBSET (1..N) /\ a = InitA /\ m = InitM /\ hist = <<>>
Do(op) == /\ PreA(op, a) /\ a' = ApplyA(op, a, qual, N) /\ m' = ApplyM(op, a, m, qual, N)
          /\ hist' = Append(hist, op) /\ UNCHANGED qual
Next == \E op \in Ops : Do(op)
Spec == Init /\ [][Next]_vars
Bound == Len(hist) <= MaxLen
View == <<qual, a, m>>
\* the mechanism pulls exactly what the promise says
MemoIsPulled == m.memo = a.pulled
PulledIsPrefix == a.pulled <= N
\* nothing is ever pulled twice: the pull count only grows (the log is extended, never rewritten)
PullsOnlyGrow == [][a'.pulled >= a.pulled]_vars
NoWorkOnNew == [][hist' # hist /\ hist'[Len(hist')] = "new" => a'.pulled = a.pulled]_vars
Export == (Len(hist) = MaxLen /\ qual = {}) => PrintT(<<"BEH", ToJson(hist)>>)
=============================================================================
