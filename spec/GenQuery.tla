---------------------------- MODULE GenQuery ----------------------------
(* Program generator: condition trees are built by actions that mirror   *)
(* the public API call by call (push a leaf, not_, and_, or_, wrap in    *)
(* entity/set_of), so breadth-first search enumerates every tree up to   *)
(* the bound exactly once and -simulate random-walks to larger ones.     *)
(* Finished programs are exported as JSON (inputs only).                 *)
EXTENDS EQLSyntax, Json

CONSTANTS NV,          \* number of declared variables (1 = grammar G1, 2..3 = G2)
          LeafLimit,   \* use the first LeafLimit leaves of the vocabulary
          MaxLeaves,   \* leaves per tree
          MaxNot,      \* consecutive not_ applications
          NeedNot      \* TRUE: export only trees that contain a negation (C03)

Leaves == Some(IF NV = 1 THEN LeavesG1 ELSE LeavesG2(NV), LeafLimit)

\* selections offered by Finish: <<desc, sel>>
Selections ==
  IF NV = 1 THEN << <<"entity", <<V(1)>> >> >>
  ELSE IF NV = 2 THEN
       << <<"set_of", <<V(1), V(2)>> >>, <<"entity", <<V(1)>> >>, <<"set_of", <<V(2), V(1)>> >>,
          <<"entity", <<V(2)>> >>, <<"set_of", <<V(2)>> >>, <<"set_of", <<V(1), At(V(2), "n")>> >>,
          <<"set_of", <<At(V(1), "m"), V(2), V(1)>> >> >>
  ELSE << <<"set_of", <<V(1), V(2), V(3)>> >>, <<"set_of", <<V(3), V(1)>> >>, <<"entity", <<V(2)>> >>,
          <<"set_of", <<V(2), V(3), V(1)>> >> >>

VARIABLES stack, done
vars == <<stack, done>>

Init == stack = <<>> /\ done = <<>>

Total == FoldLeft(LAMBDA acc, c : acc + NLeaves(c), 0, stack)
Top == stack[Len(stack)]
Pop(n) == SubSeq(stack, 1, Len(stack) - n)

PushLeaf(j) == /\ done = <<>> /\ Total < MaxLeaves
               /\ stack' = Append(stack, Leaves[j]) /\ UNCHANGED done
ApplyNot(form) == /\ done = <<>> /\ stack # <<>> /\ NotDepth(Top) < MaxNot
                  /\ stack' = Append(Pop(1), NotC(Top, form)) /\ UNCHANGED done
ApplyBin(kind, form) ==
  /\ done = <<>> /\ Len(stack) >= 2
  /\ LET l == stack[Len(stack) - 1] r == Top
     IN stack' = Append(Pop(2), IF kind = "and" THEN AndC(l, r, form) ELSE OrC(l, r, form))
  /\ UNCHANGED done
Finish(s) == /\ done = <<>> /\ Len(stack) = 1
             /\ (NeedNot => HasNot(Top))
             /\ done' = <<[desc |-> Selections[s][1], sel |-> Selections[s][2], cond |-> Top]>>
             /\ stack' = <<>>

Next == \/ \E j \in 1..Len(Leaves) : PushLeaf(j)
        \/ ApplyNot("fn")
        \/ \E kind \in {"and", "or"} : ApplyBin(kind, "fn")
        \/ \E s \in 1..Len(Selections) : Finish(s)
Spec == Init /\ [][Next]_vars

\* export every finished program (used with -workers 1)
Export == done # <<>> => PrintT(<<"PROG", ToJson(done[1])>>)
\* structural sanity of the builder
WellFormed == \A j \in 1..Len(stack) : NLeaves(stack[j]) <= MaxLeaves /\ NotDepth(stack[j]) <= MaxNot
=========================================================================
