---------------------------- MODULE GenQuery ----------------------------
(* Program generator: condition trees are built by actions that mirror   *)
(* the public API call by call (push a leaf, not_, and_, or_, for_all,   *)
(* wrap in entity/set_of), so breadth-first search enumerates every tree *)
(* up to the bound exactly once and -simulate random-walks to larger     *)
(* ones.  Finished programs are exported as JSON (inputs only).          *)
EXTENDS EQLSyntax, Json

CONSTANTS G,           \* grammar: "G12" (NV variables), "G3s"/"G3v"/"G1x"/"G3w"/"G3ws" three-variable vocabularies, "G3" for_all, "G6" sub-queries, "G7i"/"G7o" flatten, "G7c" concatenate
          NV,          \* number of declared variables for G12
          LeafLimit,   \* use the first LeafLimit leaves of the vocabulary
          MaxLeaves,   \* leaves per tree
          MaxNot,      \* consecutive not_ applications
          NeedNot      \* TRUE: export only trees that contain a negation (C03)

AllLeaves == CASE G = "G12" -> (IF NV = 1 THEN LeavesG1 ELSE LeavesG2(NV))
               \* constant conditions (no variable at all) combined with ordinary ones
               [] G = "G1k" -> << InC(LitI(1), LitL(<<0, 1>>), "in_"), InC(LitI(2), LitL(<<0, 1>>), "contains"),
                                  InC(LitI(0), LitL(<<0, 1>>), "contains"), PredC("p_pos", <<LitI(1)>>, "fn"),
                                  PredC("p_lt", <<LitI(2), LitI(1)>>, "fn") >> \o Some(CoreLeaves(V(1)), 6)
               [] G = "G1s" -> LeavesG1                    \* one variable, an expression on it selected instead of it
               [] G = "G4"  -> LeavesG2(2)
               \* a small vocabulary that mixes the pairs of three variables (partial bindings meet in and_/or_ trees)
               [] G = "G3v" -> << PredC("p_lt", <<At(V(2), "m"), At(V(3), "n")>>, "fn"), InC(V(2), At(V(1), "refs"), "contains"),
                                  CmpC("eq", At(V(1), "n"), LitI(0)), CmpC("ge", At(V(3), "m"), At(V(2), "m")),
                                  CmpC("eq", At(V(1), "n"), At(V(3), "m")), CmpC("lt", At(V(2), "n"), At(V(1), "m")) >>
               \* two variables; bare attribute / method-call conditions on variable 2 (operands that do not echo the incoming
               \* bindings in the rows they yield), conditions on variable 1 alone, one join - each leaf at most once in a tree
               [] G = "G2t" -> << Truth(At(V(2), "n")), CmpC("ge", At(V(1), "n"), LitI(1)), CmpC("lt", At(V(1), "m"), LitI(2)),
                                  CmpC("eq", At(V(1), "n"), At(V(2), "m")), Truth(MCall(V(2), "is_small", NoArg)),
                                  CmpC("ge", At(V(2), "m"), LitI(1)) >>
               \* four leaves over the variable sets {1,2}, {1,3}, {1}, {1,3}, each used at most once in a tree: a conjunction of
               \* two disjunctions leaves results in the conjunction's cache under a partial binding (variable 3 unbound) next
               \* to results under a full one, and later lookups match both
               [] G \in {"G3w", "G3ws"} -> << CmpC("ne", At(V(1), "n"), At(V(2), "m")), CmpC("eq", At(V(1), "m"), At(V(3), "m")),
                                  CmpC("eq", At(V(1), "n"), LitI(1)), CmpC("lt", At(V(1), "m"), At(V(3), "n")),
                                  \* (LeafLimit > 4) the remaining pair and a condition on variable 2 alone
                                  CmpC("ge", At(V(2), "n"), At(V(3), "m")), CmpC("eq", At(V(2), "m"), LitI(1)),
                                  \* (LeafLimit > 6) a condition on variable 3 alone and a second one on the pair {1,2}
                                  CmpC("ge", At(V(3), "n"), LitI(1)), CmpC("eq", At(V(1), "n"), At(V(2), "n")) >>
               \* variables compared directly (not through an attribute), for pools of queries that share their variables
               [] G = "G3s" -> << CmpC("ge", At(V(1), "n"), LitI(1)), CmpC("eq", V(2), At(V(3), "ref")),
                                  CmpC("lt", At(V(2), "n"), LitI(2)), CmpC("gt", At(V(1), "n"), At(V(2), "n")),
                                  CmpC("ne", At(V(3), "ref"), V(2)), CmpC("eq", At(V(1), "m"), At(V(3), "m")),
                                  CmpC("eq", V(1), At(V(2), "ref")), CmpC("le", At(V(3), "n"), LitI(1)) >>
               \* left-deep chains ((a op b) op c) op d over two variables: operators nested under operators
               [] G = "G2n" -> << CmpC("eq", At(V(1), "n"), At(V(2), "m")), CmpC("ge", At(V(1), "n"), LitI(1)),
                                  CmpC("lt", At(V(1), "n"), At(V(2), "n")), CmpC("eq", At(V(2), "m"), LitI(0)),
                                  CmpC("ge", At(V(2), "m"), At(V(1), "m")), CmpC("ne", At(V(1), "m"), At(V(2), "n")) >>
               [] G = "G1x" -> Cat([i \in 1..NV |-> Some(CoreLeaves(V(i)), 2)])    \* independent single-variable leaves
               [] G = "G3"  -> LeavesG3
               [] G = "G3y" -> LeavesG3y \o Some(LeavesG3, 4)
               [] G = "G6"  -> LeavesG6
               [] G = "G7i" -> LeavesG7("int")
               [] G = "G7o" -> LeavesG7("obj")
               [] G = "G7p" -> LeavesG7("opt")
               [] G = "G7c" -> LeavesG7c
Leaves == Some(AllLeaves, LeafLimit)

\* what Finish may wrap the tree in: [desc, sel, flats, bound]
Sel(desc, sel) == [desc |-> desc, sel |-> sel, flats |-> <<>>, bound |-> <<>>]
SelF(desc, sel, src) == [desc |-> desc, sel |-> sel, flats |-> <<src>>, bound |-> <<>>]
Selections ==
  CASE G = "G1x" -> << Sel("set_of", [j \in 1..NV |-> V(j)]), Sel("set_of", [j \in 1..NV |-> V(NV + 1 - j)]) >>
    [] G = "G3s" -> << Sel("set_of", <<V(1), V(2), V(3)>>), Sel("set_of", <<V(1), V(2)>>), Sel("set_of", <<V(2), V(3)>>),
                       Sel("entity", <<V(2)>>) >>
    [] G \in {"G2n", "G2t"} -> << Sel("entity", <<V(1)>>), Sel("set_of", <<V(1), V(2)>>), Sel("entity", <<V(2)>>) >>
    [] G = "G1k" -> << Sel("entity", <<V(1)>>) >>
    \* the selected value may be any value, the falsy members of its sort and None included
    [] G = "G1s" -> << Sel("entity", <<At(V(1), "o")>>), Sel("entity", <<At(V(1), "n")>>), Sel("set_of", <<At(V(1), "o")>>),
                       Sel("entity", <<At(V(1), "s")>>), Sel("set_of", <<At(V(1), "o"), V(1)>>) >>
    [] G \in {"G3w", "G3ws"} -> << Sel("set_of", <<V(1), V(2), V(3)>>), Sel("set_of", <<V(2), V(3)>>), Sel("set_of", <<V(3)>>) >>
    [] G = "G3v" -> << Sel("set_of", <<V(3), V(1)>>), Sel("set_of", <<V(1), V(2), V(3)>>), Sel("entity", <<V(2)>>) >>
    [] G = "G12" ->
       (IF NV = 1 THEN << Sel("entity", <<V(1)>>) >>
        ELSE IF NV = 2 THEN
          << Sel("set_of", <<V(1), V(2)>>), Sel("entity", <<V(1)>>), Sel("set_of", <<V(2), V(1)>>),
             Sel("entity", <<V(2)>>), Sel("set_of", <<V(2)>>), Sel("set_of", <<V(1), At(V(2), "n")>>),
             Sel("set_of", <<At(V(1), "m"), V(2), V(1)>>) >>
        ELSE << Sel("set_of", <<V(1), V(2), V(3)>>), Sel("set_of", <<V(3), V(1)>>), Sel("entity", <<V(2)>>),
                Sel("set_of", <<V(2), V(3), V(1)>>) >>)
    [] G \in {"G3", "G3y"} -> << [desc |-> "entity", sel |-> <<V(1)>>, flats |-> <<>>, bound |-> <<2>>] >>
    [] G = "G4" -> [j \in 1..Len(Heads) |-> [desc |-> "entity", sel |-> <<>>, flats |-> <<>>, bound |-> <<>>, head |-> Heads[j]]]
    [] G = "G6" -> << Sel("set_of", <<V(1), V(2)>>), Sel("entity", <<V(1)>>), Sel("set_of", <<V(2), V(1)>>) >>
    [] G \in {"G7i", "G7o", "G7p"} ->
       LET srcs == FlatSources(IF G = "G7i" THEN "int" ELSE IF G = "G7o" THEN "obj" ELSE "opt")
       IN Cat([j \in 1..Len(srcs) |-> << SelF("entity", <<Flat(1)>>, srcs[j]), SelF("set_of", <<V(1), Flat(1)>>, srcs[j]),
                                         SelF("set_of", <<Flat(1), V(1)>>, srcs[j]), SelF("set_of", <<Flat(1)>>, srcs[j]) >>])
          \* two flattened expressions of one parent, without the parent: both stay correlated through it
          \o << [desc |-> "set_of", sel |-> <<Flat(1), Flat(2)>>, flats |-> <<srcs[1], srcs[2]>>, bound |-> <<>>],
                [desc |-> "set_of", sel |-> <<Flat(2), V(1), Flat(1)>>, flats |-> <<srcs[1], srcs[2]>>, bound |-> <<>>] >>
    [] G = "G7c" -> << [desc |-> "entity", sel |-> <<V(2)>>, flats |-> <<At(V(1), "pairs")>>, bound |-> <<1>>, boundflats |-> <<1>>],
                       [desc |-> "set_of", sel |-> <<V(2)>>, flats |-> <<At(V(1), "pairs")>>, bound |-> <<1>>, boundflats |-> <<1>>] >>

VARIABLES stack, done
vars == <<stack, done>>

Init == stack = <<>> /\ done = <<>>

Total == FoldLeft(LAMBDA acc, c : acc + NLeaves(c), 0, stack)
Top == stack[Len(stack)]
Pop(n) == SubSeq(stack, 1, Len(stack) - n)

RECURSIVE UsesLeaf(_, _)
UsesLeaf(c, lf) == CASE c.k \in {"and", "or"} -> UsesLeaf(c.l, lf) \/ UsesLeaf(c.r, lf)
                     [] c.k \in {"not", "forall"} -> UsesLeaf(c.c, lf)
                     [] OTHER -> c = lf
PushLeaf(j) == /\ done = <<>> /\ Total < MaxLeaves
               /\ (G \in {"G3w", "G3ws", "G2t"} => \A i \in 1..Len(stack) : ~UsesLeaf(stack[i], Leaves[j]))
               /\ stack' = Append(stack, Leaves[j]) /\ UNCHANGED done
ApplyNot(form) == /\ done = <<>> /\ stack # <<>> /\ NotDepth(Top) < MaxNot /\ Top.k # "forall" /\ ~HasSub(Top)
                  /\ stack' = Append(Pop(1), NotC(Top, form)) /\ UNCHANGED done
ApplyBin(kind, form) ==
  /\ done = <<>> /\ Len(stack) >= 2
  /\ (kind = "or" => ~HasSubOperand(Top) /\ ~HasSubOperand(stack[Len(stack) - 1]))
  /\ (G = "G2n" => NLeaves(Top) = 1)                     \* left-deep: the right operand is always a leaf
  \* G3ws: only the conjunctions of two disjunctions of G3w - and_(or_(a, b), or_(c, d))
  /\ (G = "G3ws" => IF kind = "or" THEN NLeaves(Top) = 1 /\ NLeaves(stack[Len(stack) - 1]) = 1
                    ELSE Top.k = "or" /\ stack[Len(stack) - 1].k = "or")
  /\ LET l == stack[Len(stack) - 1] r == Top
     IN stack' = Append(Pop(2), IF kind = "and" THEN AndC(l, r, form) ELSE OrC(l, r, form))
  /\ UNCHANGED done
\* for_all(u, c): quantify the tree on top of the stack; afterwards only conjunction with conditions on the
\* free variable is offered (what the property speaks about)
ApplyForAll(ue) == /\ G \in {"G3", "G3y"} /\ done = <<>> /\ Len(stack) = 1 /\ ~HasForAll(Top)
                   /\ stack' = <<ForAllC(<<2>>, ue, Top)>> /\ UNCHANGED done
PushOuter(j, side) == /\ G \in {"G3", "G3y"} /\ done = <<>> /\ Len(stack) = 1 /\ Top.k = "forall"
                      /\ stack' = << IF side = "l" THEN AndC(OuterG3[j], Top, "fn") ELSE AndC(Top, OuterG3[j], "fn") >>
                      /\ UNCHANGED done
Finish(s) == /\ done = <<>> /\ Len(stack) = 1
             /\ (NeedNot => HasNot(Top))
             /\ (G \in {"G3", "G3y"} => HasForAll(Top))
             /\ (G = "G3ws" => Top.k = "and")
             /\ done' = <<IF G = "G4"
                           THEN [desc |-> "entity", sel |-> <<>>, flats |-> <<>>, bound |-> <<>>, cond |-> Top,
                                 head |-> Selections[s].head]
                           ELSE [desc |-> Selections[s].desc, sel |-> Selections[s].sel, flats |-> Selections[s].flats,
                                 bound |-> Selections[s].bound, cond |-> Top,
                                 boundflats |-> IF "boundflats" \in DOMAIN Selections[s] THEN Selections[s].boundflats ELSE <<>>]>>
             /\ stack' = <<>>

\* a query without any condition: entity(x) / set_of([...]) alone
FinishBare(s) == /\ G \in {"G12", "G1s", "G7i", "G7o", "G7p"} /\ ~NeedNot
                 /\ done = <<>> /\ stack = <<>>
                 /\ done' = <<[desc |-> Selections[s].desc, sel |-> Selections[s].sel, flats |-> Selections[s].flats,
                               bound |-> Selections[s].bound, cond |-> TrueC, boundflats |-> <<>>]>>
                 /\ stack' = <<>>

Next == \/ \E j \in 1..Len(Leaves) : PushLeaf(j) /\ (G \in {"G3", "G3y"} => ~(stack # <<>> /\ HasForAll(Top)))
        \/ ApplyNot("fn") /\ (G \in {"G3", "G3y"} => ~HasForAll(Top))
        \/ \E kind \in {"and", "or"} : ApplyBin(kind, "fn")
        \/ \E ue \in 1..4 : ApplyForAll(CASE ue = 1 -> V(2)
                                            [] ue = 2 -> At(V(2), "n")
                                            \* the universal values are the solutions of a sub-query
                                            [] ue = 3 -> SubE(2, CmpC("ge", At(V(2), "n"), LitI(1)), "an")
                                            [] ue = 4 -> At(SubE(2, CmpC("ne", At(V(2), "m"), LitI(0)), "an"), "n"))
        \/ \E j \in 1..Len(OuterG3), side \in {"l", "r"} : PushOuter(j, side)
        \/ \E s \in 1..Len(Selections) : Finish(s)
        \/ \E s \in 1..Len(Selections) : FinishBare(s)
Spec == Init /\ [][Next]_vars

\* export every finished program (used with -workers 1)
Export == done # <<>> => PrintT(<<"PROG", ToJson(done[1])>>)
\* export with the rewritten variants of the condition (C18)
ExportRW == done # <<>> => PrintT(<<"PROGRW", ToJson([orig |-> done[1], variants |-> Variants(done[1].cond)])>>)
\* structural sanity of the builder
WellFormed == \A j \in 1..Len(stack) : NLeaves(stack[j]) <= MaxLeaves + 1 /\ NotDepth(stack[j]) <= MaxNot
=========================================================================
