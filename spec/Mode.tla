-------------------------------- MODULE Mode --------------------------------
(* Every interleaving of block entry/exit with iterator creation, advance, *)
(* close, drop and drain; the mechanism (Layer B) must keep the context    *)
(* variable equal to what the open blocks say (Layer A).                   *)
EXTENDS ModeOps, Json
CONSTANTS MaxBlocks, MaxLen
VARIABLES a, m, hist
vars == <<a, m, hist>>

Events == [op : {"enter"}, kind : Kinds, how : {"-"}, i : {0}]
          \cup [op : {"exit"}, kind : {"-"}, how : {"normal", "exception"}, i : {0}]
          \cup [op : {"new", "next", "close", "drop", "drain"}, kind : {"-"}, how : {"-"}, i : 1..NIter]
          \cup [op : {"evalthe"}, kind : {"-"}, how : {"-"}, i : {0}]

Init == a = InitA /\ m = InitM /\ hist = <<>>
Do(ev) == /\ PreA(ev, a, MaxBlocks)
          /\ a' = ApplyA(ev, a)
          /\ m' = ApplyM(ev, a, m)
          /\ hist' = Append(hist, ev)
Next == \E ev \in Events : Do(ev)
Spec == Init /\ [][Next]_vars

Bound == Len(hist) <= MaxLen
View == <<a, m>>
\* C08 on the mechanism
Confined == m.cv = ExpMode(a)
BlockFramesMatch == Len(m.bprev) = Len(a.blocks)
\* leaving the last block restores the initial mode (special case worth naming)
OutsideIsNone == a.blocks = <<>> => m.cv = "none"
Export == Len(hist) = MaxLen => PrintT(<<"BEH", ToJson(hist)>>)
=============================================================================
