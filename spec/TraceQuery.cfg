SPECIFICATION Spec
POSTCONDITION Post
CHECK_DEADLOCK FALSE
