---------------------------- MODULE EQLSyntax ----------------------------
(* Abstract syntax constructors and the bounded leaf vocabularies of the *)
(* generator specifications.  Collections of syntax are sequences, never *)
(* sets (TLC cannot order records of different shapes).                  *)
EXTENDS EQLValues, SequencesExt

V(i)        == [k |-> "var", i |-> i]
Lit(v)      == [k |-> "lit", v |-> v]
LitI(n)     == Lit(IntV(n))
LitS(s)     == Lit([t |-> "str", v |-> s])
LitL(ns)    == Lit(ListV([j \in 1..Len(ns) |-> IntV(ns[j])]))
LitNone     == Lit(NoneV)
At(e, a)    == [k |-> "attr", e |-> e, a |-> a]
Idx(e, n)   == [k |-> "idx", e |-> e, key |-> IntV(n)]
NoArg       == [t |-> "noarg", v |-> 0]
MCall(e, m, arg) == [k |-> "mcall", e |-> e, m |-> m, arg |-> arg]
Flat(j)     == [k |-> "flat", j |-> j]
Concat(e)   == [k |-> "concat", e |-> e]

CmpC(op, l, r)    == [k |-> "cmp", op |-> op, l |-> l, r |-> r]
InC(item, cont, form) == [k |-> "in", item |-> item, cont |-> cont, form |-> form]
Truth(e)          == [k |-> "truth", e |-> e]
AndC(l, r, form)  == [k |-> "and", l |-> l, r |-> r, form |-> form]
OrC(l, r, form)   == [k |-> "or", l |-> l, r |-> r, form |-> form]
NotC(c, form)     == [k |-> "not", c |-> c, form |-> form]
PredC(p, args, form) == [k |-> "pred", p |-> p, args |-> args, form |-> form]
TrueC             == [k |-> "true"]

Ops == <<"eq", "ne", "lt", "le", "gt", "ge">>

Cat(ss) == FoldLeft(LAMBDA acc, s : acc \o s, <<>>, ss)
Map2(A, B, F(_, _)) == Cat([i \in 1..Len(A) |-> [j \in 1..Len(B) |-> F(A[i], B[j])]])

(* ---- single-variable leaves over variable x (class A) ----            *)
(* ordered so that a prefix is already diverse (LeafLimit cuts a prefix) *)
CoreLeaves(x) ==
  << CmpC("eq", At(x, "n"), LitI(0)),
     CmpC("lt", At(x, "n"), At(x, "m")),
     Truth(At(x, "n")),
     CmpC("ge", At(x, "n"), LitI(1)),
     InC(At(x, "n"), LitL(<<0, 2>>), "in_"),
     CmpC("eq", At(x, "s"), LitS(<<>>)),
     Truth(MCall(x, "is_small", NoArg)),
     CmpC("ne", At(x, "o"), LitNone),
     CmpC("le", At(x, "m"), At(x, "n")),
     PredC("p_pos", <<At(x, "n")>>, "fn"),
     CmpC("gt", LitI(1), At(x, "n")),
     Truth(At(x, "items")) >>

MoreLeaves(x) ==
  Map2(Ops, <<0, 1>>, LAMBDA op, n : CmpC(op, At(x, "n"), LitI(n)))
  \o [j \in 1..Len(Ops) |-> CmpC(Ops[j], At(x, "n"), At(x, "m"))]
  \o << CmpC("eq", LitI(0), At(x, "m")),
        CmpC("ne", At(x, "s"), LitS(<<>>)),
        CmpC("eq", At(x, "s"), LitS(<<1>>)),
        CmpC("lt", At(x, "s"), LitS(<<1, 2>>)),
        InC(At(x, "n"), LitL(<<0, 2>>), "contains"),
        InC(LitI(1), At(x, "items"), "in_"),
        InC(LitI(0), At(x, "items"), "contains"),
        Truth(At(x, "s")),
        Truth(At(x, "o")),
        Truth(MCall(x, "n_ge", IntV(1))),
        Truth(MCall(At(x, "s"), "startswith", [t |-> "str", v |-> <<1>>])),
        CmpC("eq", MCall(x, "n_plus", IntV(-1)), LitI(0)),
        CmpC("lt", MCall(x, "n_plus", IntV(-1)), LitI(1)),
        PredC("p_lt", <<At(x, "n"), At(x, "m")>>, "fn"),
        PredC("p_pos", <<At(x, "m")>>, "class"),
        CmpC("eq", Idx(At(x, "t"), 0), LitI(0)),
        CmpC("gt", Idx(At(x, "t"), 1), At(x, "n")),
        CmpC("eq", At(At(x, "ref"), "n"), LitI(0)),
        CmpC("ge", At(At(x, "ref"), "m"), At(x, "n")),
        CmpC("eq", At(x, "o"), LitNone),
        CmpC("eq", At(x, "o"), LitI(0)) >>

LeavesG1 == CoreLeaves(V(1)) \o MoreLeaves(V(1))

(* ---- join leaves over two variables ----                              *)
JoinLeaves(x, y) ==
  << CmpC("eq", At(x, "n"), At(y, "m")),
     CmpC("lt", At(x, "n"), At(y, "n")),
     CmpC("eq", At(x, "ref"), y),
     CmpC("ne", At(x, "n"), At(y, "n")),
     InC(At(x, "n"), At(y, "items"), "in_"),
     CmpC("ge", At(y, "m"), At(x, "m")),
     PredC("p_lt", <<At(x, "m"), At(y, "n")>>, "fn"),
     CmpC("ne", y, At(x, "ref")),
     CmpC("le", At(At(x, "ref"), "n"), At(y, "m")),
     InC(y, At(x, "refs"), "contains"),
     CmpC("gt", At(x, "n"), At(y, "m")),
     CmpC("eq", At(x, "s"), At(y, "s")) >>

Some(s, n) == SubSeq(s, 1, IF n < Len(s) THEN n ELSE Len(s))

LeavesG2(nv) ==
  LET pairs == IF nv = 2 THEN << <<1, 2>>, <<2, 1>> >>
               ELSE << <<1, 2>>, <<2, 3>>, <<1, 3>>, <<2, 1>>, <<3, 1>> >>
  IN Cat([p \in 1..Len(pairs) |-> Some(JoinLeaves(V(pairs[p][1]), V(pairs[p][2])), IF p <= 2 THEN 12 ELSE 4)])
     \o Cat([i \in 1..nv |-> Some(CoreLeaves(V(i)), 5)])

NotDepth(c) == IF c.k # "not" THEN 0 ELSE IF c.c.k # "not" THEN 1 ELSE 2

RECURSIVE NLeaves(_)
NLeaves(c) == CASE c.k \in {"and", "or"} -> NLeaves(c.l) + NLeaves(c.r)
                [] c.k = "not" -> NLeaves(c.c)
                [] OTHER -> 1
RECURSIVE HasNot(_)
HasNot(c) == CASE c.k \in {"and", "or"} -> HasNot(c.l) \/ HasNot(c.r)
               [] c.k = "not" -> TRUE
               [] OTHER -> FALSE
=========================================================================
