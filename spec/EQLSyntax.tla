---------------------------- MODULE EQLSyntax ----------------------------
(* Abstract syntax constructors and the bounded leaf vocabularies of the *)
(* generator specifications.  Collections of syntax are sequences, never *)
(* sets (TLC cannot order records of different shapes).                  *)
EXTENDS EQLValues, SequencesExt

V(i)        == [k |-> "var", i |-> i]
Lit(v)      == [k |-> "lit", v |-> v]
LitI(n)     == Lit(IntV(n))
LitS(s)     == Lit([t |-> "str", v |-> s])
LitL(ns)    == Lit(ListV([j \in 1..Len(ns) |-> IntV(ns[j])]))
LitNone     == Lit(NoneV)
At(e, a)    == [k |-> "attr", e |-> e, a |-> a]
Idx(e, n)   == [k |-> "idx", e |-> e, key |-> IntV(n)]
IdxK(e, kv) == [k |-> "idx", e |-> e, key |-> kv]              \* x.d["a"]: a dict field indexed by a string key
StrV(s)     == [t |-> "str", v |-> s]
NoArg       == [t |-> "noarg", v |-> 0]
MCall(e, m, arg) == [k |-> "mcall", e |-> e, m |-> m, arg |-> arg, kw |-> FALSE]
MCallKw(e, m, arg) == [k |-> "mcall", e |-> e, m |-> m, arg |-> arg, kw |-> TRUE]      \* x.m(k = arg)
Flat(j)     == [k |-> "flat", j |-> j]
Concat(e)   == [k |-> "concat", e |-> e]
SubQ(desc, sel, c) == [k |-> "subq", desc |-> desc, sel |-> sel, c |-> c]     \* a sub-query used as a condition
SubE(i, c, quant)  == [k |-> "sub", i |-> i, c |-> c, quant |-> quant]        \* a sub-query used as an operand

CmpC(op, l, r)    == [k |-> "cmp", op |-> op, l |-> l, r |-> r]
InC(item, cont, form) == [k |-> "in", item |-> item, cont |-> cont, form |-> form]
Truth(e)          == [k |-> "truth", e |-> e]
AndC(l, r, form)  == [k |-> "and", l |-> l, r |-> r, form |-> form]
OrC(l, r, form)   == [k |-> "or", l |-> l, r |-> r, form |-> form]
NotC(c, form)     == [k |-> "not", c |-> c, form |-> form]
PredC(p, args, form) == [k |-> "pred", p |-> p, args |-> args, form |-> form]
TrueC             == [k |-> "true"]

Ops == <<"eq", "ne", "lt", "le", "gt", "ge">>

Cat(ss) == FoldLeft(LAMBDA acc, s : acc \o s, <<>>, ss)
Map2(A, B, F(_, _)) == Cat([i \in 1..Len(A) |-> [j \in 1..Len(B) |-> F(A[i], B[j])]])

(* ---- single-variable leaves over variable x (class A) ----            *)
(* ordered so that a prefix is already diverse (LeafLimit cuts a prefix) *)
CoreLeaves(x) ==
  << CmpC("eq", At(x, "n"), LitI(0)),
     CmpC("lt", At(x, "n"), At(x, "m")),
     Truth(At(x, "n")),
     CmpC("ge", At(x, "n"), LitI(1)),
     InC(At(x, "n"), LitL(<<0, 2>>), "in_"),
     CmpC("eq", At(x, "s"), LitS(<<>>)),
     Truth(MCall(x, "is_small", NoArg)),
     CmpC("ne", At(x, "o"), LitNone),
     CmpC("le", At(x, "m"), At(x, "n")),
     PredC("p_pos", <<At(x, "n")>>, "fn"),
     CmpC("gt", LitI(1), At(x, "n")),
     Truth(At(x, "items")) >>

MoreLeaves(x) ==
  Map2(Ops, <<0, 1>>, LAMBDA op, n : CmpC(op, At(x, "n"), LitI(n)))
  \o [j \in 1..Len(Ops) |-> CmpC(Ops[j], At(x, "n"), At(x, "m"))]
  \o << CmpC("eq", LitI(0), At(x, "m")),
        CmpC("ne", At(x, "s"), LitS(<<>>)),
        CmpC("eq", At(x, "s"), LitS(<<1>>)),
        CmpC("lt", At(x, "s"), LitS(<<1, 2>>)),
        InC(At(x, "n"), LitL(<<0, 2>>), "contains"),
        InC(LitI(1), At(x, "items"), "in_"),
        InC(LitI(0), At(x, "items"), "contains"),
        Truth(At(x, "s")),
        Truth(At(x, "o")),
        Truth(MCall(x, "n_ge", IntV(1))),
        Truth(MCall(At(x, "s"), "startswith", [t |-> "str", v |-> <<1>>])),
        CmpC("eq", MCall(x, "n_plus", IntV(-1)), LitI(0)),
        CmpC("lt", MCall(x, "n_plus", IntV(-1)), LitI(1)),
        PredC("p_lt", <<At(x, "n"), At(x, "m")>>, "fn"),
        PredC("p_pos", <<At(x, "m")>>, "class"),
        CmpC("eq", Idx(At(x, "t"), 0), LitI(0)),
        CmpC("gt", Idx(At(x, "t"), 1), At(x, "n")),
        CmpC("eq", At(At(x, "ref"), "n"), LitI(0)),
        CmpC("ge", At(At(x, "ref"), "m"), At(x, "n")),
        CmpC("eq", At(x, "o"), LitNone),
        CmpC("eq", At(x, "o"), LitI(0)),
        Truth(MCallKw(x, "n_ge", IntV(2))),
        CmpC("eq", MCallKw(x, "n_plus", IntV(-1)), LitI(1)),
        CmpC("eq", IdxK(At(x, "d"), StrV(<<1>>)), LitI(0)),
        CmpC("lt", IdxK(At(x, "d"), StrV(<<2>>)), At(x, "n")),
        \* calls whose only positional argument is the falsy member of its sort: it is an argument all the same
        Truth(MCall(x, "n_ge", IntV(0))),
        CmpC("eq", MCall(x, "n_plus", IntV(0)), LitI(0)),
        Truth(MCall(At(x, "s"), "startswith", StrV(<<>>))),
        CmpC("ge", MCall(At(x, "items"), "count", IntV(0)), LitI(1)),
        \* a user predicate whose body builds and evaluates a query of its own
        PredC("p_qge2", <<At(x, "n")>>, "fn"),
        \* a predicate called on constants only (it is still a condition evaluated with the query, not while it is built)
        PredC("p_pos", <<LitI(1)>>, "fn"),
        PredC("p_lt", <<LitI(2), LitI(1)>>, "fn"),
        \* conditions that mention no variable at all (a constant membership test): true or false for every binding
        InC(LitI(1), LitL(<<0, 1>>), "in_"),
        InC(LitI(2), LitL(<<0, 1>>), "contains") >>

LeavesG1 == CoreLeaves(V(1)) \o MoreLeaves(V(1))

(* ---- join leaves over two variables ----                              *)
JoinLeaves(x, y) ==
  << CmpC("eq", At(x, "n"), At(y, "m")),
     CmpC("lt", At(x, "n"), At(y, "n")),
     CmpC("eq", At(x, "ref"), y),
     CmpC("ne", At(x, "n"), At(y, "n")),
     InC(At(x, "n"), At(y, "items"), "in_"),
     CmpC("ge", At(y, "m"), At(x, "m")),
     PredC("p_eq", <<x, y>>, "fn"),            \* a predicate on the variables themselves (the same argument objects at every call)
     PredC("p_eq", <<At(x, "ref"), y>>, "fn"),
     PredC("p_lt", <<At(x, "m"), At(y, "n")>>, "fn"),
     CmpC("ne", y, At(x, "ref")),
     CmpC("le", At(At(x, "ref"), "n"), At(y, "m")),
     InC(y, At(x, "refs"), "contains"),
     CmpC("gt", At(x, "n"), At(y, "m")),
     CmpC("eq", At(x, "s"), At(y, "s")) >>

Some(s, n) == SubSeq(s, 1, IF n < Len(s) THEN n ELSE Len(s))

LeavesG2(nv) ==
  LET pairs == IF nv = 2 THEN << <<1, 2>>, <<2, 1>> >>
               ELSE << <<1, 2>>, <<2, 3>>, <<1, 3>>, <<2, 1>>, <<3, 1>> >>
  IN Cat([p \in 1..Len(pairs) |-> Some(JoinLeaves(V(pairs[p][1]), V(pairs[p][2])), IF p <= 2 THEN 14 ELSE 4)])
     \o Cat([i \in 1..nv |-> Some(CoreLeaves(V(i)), 5)])

(* ---- G3: universal quantification.  x = V(1) is free, u = V(2) is the ----*)
(* ---- universal variable; leaves mention u, x, both                    ----*)
ForAllC(uv, ue, c) == [k |-> "forall", uv |-> uv, ue |-> ue, c |-> c]
LeavesG3 ==
  LET x == V(1)  u == V(2) IN
  << CmpC("ge", At(u, "n"), LitI(1)),
     CmpC("le", At(x, "n"), At(u, "n")),
     CmpC("ge", At(x, "m"), LitI(1)),
     CmpC("eq", At(u, "m"), LitI(0)),
     CmpC("ne", At(x, "n"), At(u, "m")),
     CmpC("lt", At(x, "n"), LitI(2)),
     InC(At(x, "n"), At(u, "items"), "in_"),
     CmpC("ne", At(u, "ref"), x),
     Truth(At(u, "n")),
     CmpC("eq", At(x, "s"), At(u, "s")),
     PredC("p_lt", <<At(x, "n"), At(u, "m")>>, "fn"),
     CmpC("gt", At(u, "n"), At(x, "m")) >>
\* a second free variable y = V(3) that occurs only under the quantifier (the rooms that have a worker who masters
\* every requirement): leaves relating y to x, y to u, and y alone
LeavesG3y ==
  LET x == V(1)  u == V(2)  y == V(3) IN
  << CmpC("eq", At(y, "ref"), x),
     InC(At(u, "n"), At(y, "items"), "in_"),
     CmpC("ge", At(y, "n"), At(u, "n")),
     CmpC("eq", At(y, "m"), At(x, "m")),
     InC(At(u, "m"), At(y, "items"), "contains"),
     CmpC("ne", At(y, "n"), At(x, "n")) >>
\* leaves over the free variable only, for conjunction with the quantified part
OuterG3 == << CmpC("ge", At(V(1), "n"), LitI(1)), CmpC("eq", At(V(1), "m"), LitI(0)), Truth(At(V(1), "items")),
              CmpC("ne", At(V(1), "s"), LitS(<<>>)) >>

(* ---- G7: flatten.  x = V(1); the flattened expression is slot Flat(1) ----*)
FlatSources(kind) == IF kind = "int" THEN << At(V(1), "items"), At(V(1), "t"), At(V(1), "n"), MCall(V(1), "items_copy", NoArg) >>
                     ELSE IF kind = "opt" THEN << At(V(1), "o"), At(V(1), "items") >>      \* o: a scalar that is None or an int
                     ELSE << At(V(1), "refs"), At(V(1), "ref") >>
LeavesG7(kind) ==
  LET x == V(1)  f == Flat(1) IN
  (IF kind = "opt"       \* elements that may be None: equality and membership only (None is not ordered)
   THEN << CmpC("eq", f, LitNone), CmpC("ne", f, LitI(0)), CmpC("eq", f, At(x, "n")), InC(f, LitL(<<0, 2>>), "in_"),
           CmpC("ne", f, LitNone) >>      \* (not the flatten node itself in condition position: section 5)
   ELSE IF kind = "int"
   THEN << CmpC("eq", f, LitI(0)), CmpC("ge", f, LitI(1)), CmpC("eq", f, At(x, "n")), CmpC("lt", f, At(x, "m")),
           InC(f, LitL(<<0, 2>>), "in_"), CmpC("ne", f, LitI(2)), CmpC("gt", At(x, "n"), f) >>
   ELSE << CmpC("eq", At(f, "n"), LitI(0)), CmpC("ne", f, x), CmpC("lt", At(f, "n"), At(x, "m")),
           CmpC("eq", f, At(x, "ref")), Truth(At(f, "n")), CmpC("ge", At(f, "m"), LitI(1)),
           InC(f, At(x, "refs"), "contains"), CmpC("eq", At(f, "s"), At(x, "s")) >>)
  \o Some(CoreLeaves(x), 4)

(* ---- G7c: concatenate.  x = V(1) is aggregated, y = V(2) is tested     ----*)
LeavesG7c ==
  LET x == V(1)  y == V(2) IN
  << InC(At(y, "n"), Concat(At(x, "items")), "in_"),
     InC(y, Concat(At(x, "refs")), "in_"),
     InC(At(y, "m"), Concat(At(x, "items")), "contains"),
     InC(At(y, "ref"), Concat(At(x, "refs")), "contains"),
     InC(At(y, "n"), Concat(At(x, "t")), "in_"),
     InC(At(y, "n"), Concat(At(x, "n")), "in_"),
     InC(y, Concat(At(x, "ref")), "in_"),
     InC(At(y, "t"), Concat(At(x, "pairs")), "in_"),        \* inner elements that are themselves iterable stay whole
     \* a scalar that may be None counts as one element, None included
     InC(At(y, "o"), Concat(At(x, "o")), "in_"),
     InC(At(y, "n"), Concat(At(x, "o")), "in_"),
     \* concatenate(flatten(x.pairs)): the flattened elements are themselves collections, their elements are joined
     InC(At(y, "n"), Concat(Flat(1)), "in_"),
     InC(At(y, "m"), Concat(Flat(1)), "contains"),
     \* the aggregated parents are the solutions of a sub-query (with a disjunction inside), the candidate is bound first
     AndC(CmpC("ge", At(y, "n"), LitI(0)),
          InC(At(y, "n"), Concat(At(SubE(1, OrC(CmpC("ge", At(x, "n"), LitI(2)), CmpC("eq", At(x, "m"), LitI(0)), "fn"), "an"), "items")), "in_"), "fn"),
     AndC(CmpC("ne", At(y, "s"), LitS(<<>>)),
          InC(y, Concat(At(SubE(1, OrC(CmpC("eq", At(x, "n"), LitI(0)), CmpC("ge", At(x, "m"), LitI(1)), "fn"), "an"), "refs")), "in_"), "fn"),
     \* ... whose condition is a disjunction with a conjunction that starts with a bare attribute in its first branch
     AndC(CmpC("ge", At(y, "n"), LitI(0)),
          InC(At(y, "n"), Concat(At(SubE(1, OrC(AndC(Truth(At(x, "items")), CmpC("ge", At(x, "n"), LitI(1)), "fn"),
                                                CmpC("eq", At(x, "m"), LitI(0)), "fn"), "an"), "items")), "in_"), "fn") >>
  \o Some(CoreLeaves(y), 4)

(* ---- G6: sub-queries.  a sub-query over x or over (x, y) used as a     ----*)
(* ---- condition, or as an operand standing for its selected variable    ----*)
InnerG6 ==   \* conditions that sub-queries are made of
  LET x == V(1)  y == V(2) IN
  << CmpC("ge", At(x, "n"), LitI(1)), CmpC("eq", At(x, "m"), LitI(0)), CmpC("lt", At(x, "n"), At(x, "m")),
     CmpC("ne", At(x, "s"), LitS(<<>>)), InC(At(x, "n"), LitL(<<0, 2>>), "in_"), Truth(At(x, "items")) >>
InnerG6y ==
  LET y == V(2) IN
  << CmpC("ge", At(y, "n"), LitI(1)), CmpC("eq", At(y, "m"), LitI(0)), CmpC("ne", At(y, "n"), At(y, "m")) >>
LeavesG6 ==
  LET x == V(1)  y == V(2) IN
  \* sub-query as a condition over the enclosing query's own variable
  [j \in 1..Len(InnerG6) |-> SubQ("entity", <<x>>, InnerG6[j])]
  \* sub-query over the other variable / over both (set_of)
  \o [j \in 1..Len(InnerG6y) |-> SubQ("entity", <<y>>, InnerG6y[j])]
  \o << SubQ("set_of", <<x, y>>, CmpC("eq", At(x, "n"), At(y, "m"))),
        SubQ("set_of", <<x, y>>, CmpC("lt", At(x, "n"), At(y, "n"))),
        \* a disjunction inside the sub-query that binds a variable the sub-query does not select
        SubQ("entity", <<x>>, OrC(CmpC("eq", At(x, "ref"), y), CmpC("eq", At(y, "ref"), x), "fn")),
        SubQ("entity", <<x>>, OrC(CmpC("eq", At(x, "n"), At(y, "m")), CmpC("lt", At(y, "n"), At(x, "n")), "fn")) >>
  \* sub-query as a comparison operand: it stands for its selected variable, restricted to its solutions
  \o [j \in 1..3 |-> CmpC("eq", At(SubE(2, InnerG6y[j], "an"), "n"), At(x, "m"))]
  \o << CmpC("eq", SubE(2, InnerG6y[1], "an"), At(x, "ref")),
        CmpC("ne", At(x, "ref"), SubE(2, InnerG6y[2], "an")),
        InC(SubE(2, InnerG6y[1], "an"), At(x, "refs"), "contains") >>
  \* correlated sub-queries: the inner condition depends on a variable of the enclosing query; `the` picks the
  \* unique solution per binding of that variable (the harness makes y range over the whole heap, so x.ref is found once)
  \o << CmpC("eq", At(x, "m"), At(SubE(2, CmpC("eq", y, At(x, "ref")), "the"), "n")),
        CmpC("ge", At(x, "n"), At(SubE(2, CmpC("eq", y, At(x, "ref")), "the"), "m")),
        CmpC("eq", SubE(2, CmpC("eq", At(y, "n"), At(x, "m")), "an"), At(x, "ref")),
        InC(SubE(2, CmpC("lt", At(y, "n"), At(x, "n")), "an"), At(x, "refs"), "contains") >>
  \* a correlated operand whose condition mentions a third variable z that an earlier conjunct binds to several values,
  \* while the operands' own variables are still unbound
  \o << AndC(CmpC("ge", At(V(3), "m"), LitI(1)),
             CmpC("eq", At(x, "ref"), SubE(2, CmpC("lt", At(y, "n"), At(V(3), "m")), "an")), "fn"),
        AndC(Truth(At(V(3), "items")),
             CmpC("eq", SubE(2, CmpC("ge", At(y, "m"), At(V(3), "n")), "an"), At(x, "ref")), "fn") >>
  \* plain conditions to combine with
  \o << CmpC("eq", At(x, "n"), At(y, "m")), CmpC("ge", At(x, "n"), LitI(1)), CmpC("ne", At(y, "n"), LitI(0)) >>

(* ---- G4: rule heads T(f1 = e1, ...) over x = V(1), y = V(2); every head mentions both ----*)
HeadArg(name, e) == [name |-> name, e |-> e]
RuleHead(cls, args) == [cls |-> cls, args |-> args]
Heads ==
  LET x == V(1)  y == V(2) IN
  << RuleHead("P", <<HeadArg("a", x), HeadArg("b", y)>>),
     RuleHead("P", <<HeadArg("a", At(x, "n")), HeadArg("b", y), HeadArg("c", LitI(0))>>),
     RuleHead("P", <<HeadArg("a", y), HeadArg("b", At(x, "s"))>>),
     RuleHead("P", <<HeadArg("a", At(x, "ref")), HeadArg("b", At(y, "m")), HeadArg("c", LitNone)>>),
     RuleHead("R", <<HeadArg("a", x), HeadArg("b", At(y, "items"))>>),
     RuleHead("R", <<HeadArg("b", At(x, "o")), HeadArg("a", At(y, "n"))>>),
     \* a class whose instances are falsy when their first field is (an inferred instance is a value, not a truth value)
     RuleHead("PF", <<HeadArg("a", At(x, "n")), HeadArg("b", y)>>),
     RuleHead("PF", <<HeadArg("a", At(y, "s")), HeadArg("b", x), HeadArg("c", LitI(1))>>),
     \* a field with a non-None default given explicitly as None
     RuleHead("PD", <<HeadArg("a", x), HeadArg("b", y), HeadArg("c", LitNone)>>),
     \* a class whose instances are callable: the inferred instance is a value, it is not called
     RuleHead("PC", <<HeadArg("a", x), HeadArg("b", At(y, "n"))>>),
     \* a constructor argument that is a sub-query: the argument ranges over the sub-query's solutions
     RuleHead("P", <<HeadArg("a", x), HeadArg("b", SubE(2, CmpC("ge", At(y, "n"), LitI(1)), "an"))>>),
     \* an argument sub-query whose condition binds a variable that a later argument uses: the arguments stay joined
     RuleHead("P", <<HeadArg("a", SubE(1, CmpC("eq", At(y, "ref"), x), "an")), HeadArg("b", y)>>),
     RuleHead("R", <<HeadArg("a", At(SubE(2, OrC(CmpC("eq", At(y, "m"), LitI(0)), CmpC("ge", At(y, "n"), LitI(2)), "fn"), "an"), "n")),
                     HeadArg("b", x)>>) >>

(* ---- C18: meaning-preserving rewrites, each applied at every position it fits ----*)
MirrorOp(op) == CASE op = "lt" -> "gt" [] op = "gt" -> "lt" [] op = "le" -> "ge" [] op = "ge" -> "le" [] OTHER -> op
RECURSIVE RwSwap(_), RwMirror(_), RwForm(_), RwAssoc(_), Conjuncts(_, _)
\* swap the operands of every and_/or_
RwSwap(c) == CASE c.k = "and" -> AndC(RwSwap(c.r), RwSwap(c.l), c.form)
               [] c.k = "or"  -> OrC(RwSwap(c.r), RwSwap(c.l), c.form)
               [] c.k = "not" -> NotC(RwSwap(c.c), c.form)
               [] OTHER -> c
\* a < b  as  b > a  (also moves a literal to the other side)
RwMirror(c) == CASE c.k = "cmp" -> CmpC(MirrorOp(c.op), c.r, c.l)
                 [] c.k = "and" -> AndC(RwMirror(c.l), RwMirror(c.r), c.form)
                 [] c.k = "or"  -> OrC(RwMirror(c.l), RwMirror(c.r), c.form)
                 [] c.k = "not" -> NotC(RwMirror(c.c), c.form)
                 [] OTHER -> c
\* in_(i, c) <-> contains(c, i);  and_/or_/not_ functions <-> the operators & | ~
Toggle(form) == IF form = "fn" THEN "op" ELSE "fn"
RwForm(c) == CASE c.k = "in"  -> InC(c.item, c.cont, IF c.form = "in_" THEN "contains" ELSE "in_")
               [] c.k = "and" -> AndC(RwForm(c.l), RwForm(c.r), Toggle(c.form))
               [] c.k = "or"  -> OrC(RwForm(c.l), RwForm(c.r), Toggle(c.form))
               [] c.k = "not" -> NotC(RwForm(c.c), Toggle(c.form))
               [] OTHER -> c
\* (a & b) & c  <->  a & (b & c), same for |
RwAssoc(c) == CASE c.k = "and" /\ c.l.k = "and" -> AndC(RwAssoc(c.l.l), AndC(RwAssoc(c.l.r), RwAssoc(c.r), c.form), c.form)
                [] c.k = "and" /\ c.r.k = "and" -> AndC(AndC(RwAssoc(c.l), RwAssoc(c.r.l), c.form), RwAssoc(c.r.r), c.form)
                [] c.k = "or" /\ c.l.k = "or"   -> OrC(RwAssoc(c.l.l), OrC(RwAssoc(c.l.r), RwAssoc(c.r), c.form), c.form)
                [] c.k = "or" /\ c.r.k = "or"   -> OrC(OrC(RwAssoc(c.l), RwAssoc(c.r.l), c.form), RwAssoc(c.r.r), c.form)
                [] c.k = "and" -> AndC(RwAssoc(c.l), RwAssoc(c.r), c.form)
                [] c.k = "or"  -> OrC(RwAssoc(c.l), RwAssoc(c.r), c.form)
                [] c.k = "not" -> NotC(RwAssoc(c.c), c.form)
                [] OTHER -> c
\* the operands of a maximal chain of the connective `kind` at the root
Conjuncts(c, kind) == IF c.k = kind THEN Conjuncts(c.l, kind) \o Conjuncts(c.r, kind) ELSE <<c>>
\* and_(a, b, c) / or_(a, b, c) as one call
RwChain(c) == IF c.k \in {"and", "or"} /\ Len(Conjuncts(c, c.k)) > 2
              THEN [k |-> "chain", op |-> c.k, cs |-> Conjuncts(c, c.k)] ELSE c
\* several conditions passed to entity(...) / set_of(...)
RwConj(c) == IF c.k = "and" THEN [k |-> "conj", cs |-> Conjuncts(c, "and")] ELSE c
Variants(c) == << RwSwap(c), RwMirror(c), RwForm(c), RwAssoc(c), RwChain(c), RwConj(c), RwSwap(RwMirror(RwForm(c))) >>

NotDepth(c) == IF c.k # "not" THEN 0 ELSE IF c.c.k # "not" THEN 1 ELSE 2

RECURSIVE NLeaves(_)
NLeaves(c) == CASE c.k \in {"and", "or"} -> NLeaves(c.l) + NLeaves(c.r)
                [] c.k \in {"not", "forall"} -> NLeaves(c.c)
                [] OTHER -> 1
RECURSIVE HasNot(_)
HasNot(c) == CASE c.k \in {"and", "or"} -> HasNot(c.l) \/ HasNot(c.r)
               [] c.k = "not" -> TRUE
               [] c.k = "forall" -> HasNot(c.c)
               [] OTHER -> FALSE
\* does a condition contain a sub-query (as a condition or as an operand)?  not_ over a quantifier is rejected by the API
RECURSIVE ExprHasSub(_)
ExprHasSub(e) == CASE e.k = "sub" -> TRUE
                   [] e.k \in {"attr", "idx", "mcall"} -> ExprHasSub(e.e)
                   [] OTHER -> FALSE
RECURSIVE HasSub(_)
HasSub(c) == CASE c.k = "subq" -> TRUE
               [] c.k = "cmp" -> ExprHasSub(c.l) \/ ExprHasSub(c.r)
               [] c.k = "in" -> ExprHasSub(c.item) \/ ExprHasSub(c.cont)
               [] c.k \in {"and", "or"} -> HasSub(c.l) \/ HasSub(c.r)
               [] c.k \in {"not", "forall"} -> HasSub(c.c)
               [] OTHER -> FALSE
\* sub-query used as an operand somewhere below?  (under a disjunction the reach of the operand's restriction is not
\* fixed by C15's wording, so the generator combines such leaves conjunctively only)
RECURSIVE HasSubOperand(_)
HasSubOperand(c) == CASE c.k = "cmp" -> ExprHasSub(c.l) \/ ExprHasSub(c.r)
                      [] c.k = "in" -> ExprHasSub(c.item) \/ ExprHasSub(c.cont)
                      [] c.k \in {"and", "or"} -> HasSubOperand(c.l) \/ HasSubOperand(c.r)
                      [] c.k \in {"not", "forall"} -> HasSubOperand(c.c)
                      [] OTHER -> FALSE
RECURSIVE HasForAll(_)
HasForAll(c) == CASE c.k \in {"and", "or"} -> HasForAll(c.l) \/ HasForAll(c.r)
                  [] c.k = "not" -> HasForAll(c.c)
                  [] c.k = "forall" -> TRUE
                  [] OTHER -> FALSE
=========================================================================
