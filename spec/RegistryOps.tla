---------------------------- MODULE RegistryOps ----------------------------
(* The live registry of @symbol instances (C14).  Layer A: the registry is  *)
(* the log of concrete constructions since the last clearing; a variable    *)
(* declared without a domain ranges over exactly the logged instances of    *)
(* its type and subtypes, each once.                                        *)
EXTENDS Naturals, Sequences, FiniteSets, TLC

Supers(cls) ==
  CASE cls = "Base" -> {"Base"}
    [] cls = "Mid"  -> {"Mid", "Base"}
    [] cls = "Leaf" -> {"Leaf", "Mid", "Base"}
    [] cls = "Own"  -> {"Own"}                      \* a class with a hand-written __new__ ...
    [] cls = "OwnSub" -> {"OwnSub", "Own"}          \* ... and its undecorated subclass
    [] cls = "P"    -> {"P"}
    [] cls = "R"    -> {"R"}
    [] OTHER -> {cls}

\* s = [reg : Seq([idx, cls]), next : Nat, inits : Nat, decl : Seq(type)]
\*   decl  = types of the no-domain variables declared so far (slot k = k-th declaration)
\*   next  = index the next concretely constructed instance gets
\*   inits = how often a hand-written __init__ (Leaf, Own, OwnSub) has run
InitS == [reg |-> <<>>, next |-> 1, inits |-> 0, decl |-> <<>>]

RECURSIVE AppendN(_, _, _, _)
AppendN(reg, next, cls, n) == IF n = 0 THEN reg ELSE AppendN(Append(reg, [idx |-> next, cls |-> cls]), next + 1, cls, n - 1)

Apply(ev, s) ==
  CASE ev.op = "construct" -> [s EXCEPT !.reg = Append(@, [idx |-> s.next, cls |-> ev.cls]), !.next = @ + 1,
                                        !.inits = @ + (IF ev.cls \in {"Leaf", "Own", "OwnSub"} THEN 1 ELSE 0)]
    [] ev.op = "symconstruct" -> s                     \* registers nothing, runs no initialisation
    [] ev.op = "infer" -> [s EXCEPT !.reg = AppendN(s.reg, s.next, "P", ev.n), !.next = s.next + ev.n]
    [] ev.op = "clear" -> [s EXCEPT !.reg = <<>>]
    [] ev.op = "query" -> s
    [] ev.op = "declare" -> [s EXCEPT !.decl = Append(@, ev.T)]      \* let(T) now, evaluated later (once)
    [] ev.op = "evalvar" -> s

Expected(T, s) == {s.reg[j].idx : j \in {k \in 1..Len(s.reg) : T \in Supers(s.reg[k].cls)}}
=============================================================================
