SPECIFICATION Spec
CONSTANTS NV = 1 LeafLimit = 12 MaxLeaves = 2 MaxNot = 1 NeedNot = FALSE
INVARIANT Export
INVARIANT WellFormed
CHECK_DEADLOCK FALSE
