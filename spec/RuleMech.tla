------------------------------ MODULE RuleMech ------------------------------
(* Layer B for rule trees (C12): how rule.py wires a tree while the user     *)
(* writes `with refinement(c):` / `with alternative(c):` / `with next_rule(c):`*)
(* blocks, and how the conclusion selectors (conclusion_selector.py) pick    *)
(* conclusions - against the ripple-down reference interpreter of Layer A.   *)
(* Branch conditions are abstracted to booleans: for a given assignment the  *)
(* k-th branch condition either holds or not, so the invariant quantifies    *)
(* over all 2^n valuations - every dataset at once.                          *)
(*   abstract  a : the RDR tree  [ref, alt, edge]  (0 = none): alt = the next *)
(*               member of the chain the node belongs to, edge = how the node *)
(*               itself hangs on that chain ("alt": consulted where nothing   *)
(*               before it fired; "next": always consulted as well)           *)
(*   wired     w : the operator structure rule.py builds                      *)
(*               leaf(tag) | except(l, r) | alt(l, r) | next(l, r), with      *)
(*               parent pointers                                              *)
(*   stack       : the with-blocks entered so far (ids of wired leaves)       *)
EXTENDS Naturals, Sequences, FiniteSets, TLC, Json
CONSTANTS MaxNodes,
          WithNext,              \* TRUE: `with next_rule(c):` blocks are written too
          SiblingRefinements,    \* TRUE: a block may hold several `with refinement(c):` blocks
          RefinementRelinks,     \* TRUE: refinement() puts the new ExceptIf in the place of the refined branch in the
                                 \* operator that holds it (commit "fix: a refinement nested under ..."); FALSE: as before
          AlternativeClimbsAll   \* TRUE: alternative() climbs to the top of the chain the current block belongs to
                                 \* (commit "fix: a third sequential alternative ..."); FALSE: one step only, as before

VARIABLES a,       \* [1..n -> [ref, alt]]         abstract tree, node 1 is the base
          w,       \* [1..m -> [kind, tag, l, r, parent]]
          root,    \* id of the wired conditions root
          stack,   \* Seq([wid, aid])            open blocks: wired leaf and abstract node
          n, hist
vars == <<a, w, root, stack, n, hist>>

Leaf(tag, parent) == [kind |-> "leaf", tag |-> tag, l |-> 0, r |-> 0, parent |-> parent]
Init == /\ a = <<[ref |-> 0, alt |-> 0, edge |-> "alt"]>> /\ w = <<Leaf(1, 0)>> /\ root = 1
        /\ stack = <<[wid |-> 1, aid |-> 1]>> /\ n = 1 /\ hist = <<>>

Top == stack[Len(stack)]
NewId == Len(w) + 1
ReplaceChild(ws, p, old, new) ==
  IF p = 0 THEN ws ELSE [ws EXCEPT ![p] = IF @.l = old THEN [@ EXCEPT !.l = new] ELSE [@ EXCEPT !.r = new]]

\* `with refinement(c):` inside the block on top of the stack
\* the abstract node an alternative written in the current block belongs to: the last node of the alternative chain
\* of the block's node
RECURSIVE LastAlt(_, _)
LastAlt(aa, i) == IF aa[i].alt = 0 THEN i ELSE LastAlt(aa, aa[i].alt)
\* a second `with refinement(c):` in the same block: rule.py wraps the refined branch once more, inside the first wrapper, so
\* the refinement written first is consulted first - abstractly the new one joins the chain the first one heads
Refine ==
  /\ n < MaxNodes /\ (a[Top.aid].ref = 0 \/ SiblingRefinements)
  /\ LET cur == Top.wid
         pp == w[cur].parent
         leaf == NewId
         exc == NewId + 1
         w1 == Append(Append(w, Leaf(n + 1, exc)), [kind |-> "except", tag |-> 0, l |-> cur, r |-> leaf, parent |-> pp])
         w2 == [w1 EXCEPT ![cur].parent = exc]
     IN /\ w' = IF RefinementRelinks THEN ReplaceChild(w2, pp, cur, exc) ELSE w2
        /\ root' = IF pp = 0 THEN exc ELSE root
        /\ a' = Append(IF a[Top.aid].ref = 0 THEN [a EXCEPT ![Top.aid].ref = n + 1]
                       ELSE [a EXCEPT ![LastAlt(a, a[Top.aid].ref)].alt = n + 1],
                       [ref |-> 0, alt |-> 0, edge |-> "alt"])
        /\ stack' = Append(stack, [wid |-> leaf, aid |-> n + 1])
  /\ n' = n + 1 /\ hist' = Append(hist, "refinement")


\* the top of the chain of alternatives (and of the refinement whose refined branch it is) that node i belongs to
RECURSIVE Climb(_, _)
Climb(ws, i) == LET p == ws[i].parent
                IN IF p # 0 /\ (ws[p].kind \in {"alt", "next"} \/ (ws[p].kind = "except" /\ ws[p].l = i)) THEN Climb(ws, p) ELSE i

\* `with alternative(c):` / `with next_rule(c):` inside the block on top of the stack (alternative_or_next in rule.py)
Branch(kind) ==
  /\ n < MaxNodes
  /\ LET top == Top.wid
         p1 == w[top].parent
         cur == IF AlternativeClimbsAll THEN Climb(w, top)
                ELSE IF p1 # 0 /\ w[p1].kind \in {"alt", "next"} THEN p1
                ELSE IF p1 # 0 /\ w[p1].kind = "except" /\ w[p1].l = top THEN p1
                ELSE top
         pp == w[cur].parent
         leaf == NewId
         alt == NewId + 1
         w1 == Append(Append(w, Leaf(n + 1, alt)), [kind |-> kind, tag |-> 0, l |-> cur, r |-> leaf, parent |-> pp])
         w2 == [w1 EXCEPT ![cur].parent = alt]
         owner == LastAlt(a, Top.aid)
     IN /\ w' = IF pp = 0 THEN w2
               ELSE IF AlternativeClimbsAll THEN ReplaceChild(w2, pp, cur, alt)
               ELSE [w2 EXCEPT ![pp].r = alt]                              \* prev_parent.right = new_conditions_root
        /\ root' = IF pp = 0 THEN alt ELSE root
        /\ a' = Append([a EXCEPT ![owner].alt = n + 1], [ref |-> 0, alt |-> 0, edge |-> kind])
        /\ stack' = Append(stack, [wid |-> leaf, aid |-> n + 1])
  /\ n' = n + 1 /\ hist' = Append(hist, IF kind = "alt" THEN "alternative" ELSE "next_rule")
Alternative == Branch("alt")
NextRule == WithNext /\ Branch("next")

Close == /\ Len(stack) > 1 /\ stack' = SubSeq(stack, 1, Len(stack) - 1)
         /\ hist' = Append(hist, "close") /\ UNCHANGED <<a, w, root, n>>
Next == Refine \/ Alternative \/ NextRule \/ Close
Spec == Init /\ [][Next]_vars
View == <<a, w, root, stack, n>>

\* ---------------- Layer A: ripple-down rules over a valuation v : tag -> BOOLEAN ----------------
\* a chain is consulted member by member in the order of writing: an "alt" member only where nothing before it fired,
\* a "next" member always; a member that holds contributes the result of its refinement chain, or its own conclusion
RECURSIVE Fire(_, _, _), FireChain(_, _, _, _)
FireChain(aa, i, v, acc) ==
  IF i = 0 THEN acc
  ELSE LET own == IF v[i] THEN (LET r == Fire(aa, aa[i].ref, v) IN IF r # <<>> THEN r ELSE <<i>>) ELSE <<>>
       IN FireChain(aa, aa[i].alt, v, IF aa[i].edge = "next" THEN acc \o own ELSE IF acc # <<>> THEN acc ELSE own)
Fire(aa, i, v) == FireChain(aa, i, v, <<>>)

\* ---------------- Layer B: what the selectors yield ----------------
RECURSIVE EvalW(_, _, _)
EvalW(ws, i, v) ==
  LET x == ws[i] IN
  CASE x.kind = "leaf" -> [holds |-> v[x.tag], concl |-> IF v[x.tag] THEN <<x.tag>> ELSE <<>>]
    [] x.kind = "except" ->
         LET lft == EvalW(ws, x.l, v) IN
         IF ~lft.holds THEN [holds |-> FALSE, concl |-> <<>>]
         ELSE LET rgt == EvalW(ws, x.r, v) IN
              IF rgt.holds THEN [holds |-> TRUE, concl |-> rgt.concl] ELSE [holds |-> TRUE, concl |-> lft.concl]
    [] x.kind = "alt" ->
         LET lft == EvalW(ws, x.l, v) IN
         IF lft.holds THEN [holds |-> TRUE, concl |-> lft.concl]
         ELSE LET rgt == EvalW(ws, x.r, v) IN
              IF rgt.holds THEN [holds |-> TRUE, concl |-> rgt.concl] ELSE [holds |-> FALSE, concl |-> <<>>]
    [] x.kind = "next" ->      \* a union: both sides are always evaluated
         LET lft == EvalW(ws, x.l, v)
             rgt == EvalW(ws, x.r, v)
         IN [holds |-> lft.holds \/ rgt.holds, concl |-> lft.concl \o rgt.concl]

WiredEqualsFire == \A v \in [1..n -> BOOLEAN] : EvalW(w, root, v).concl = Fire(a, 1, v)
\* every wired node is reachable from the root exactly through its parent pointer
ParentsConsistent == \A i \in 1..Len(w) : w[i].kind # "leaf" => w[w[i].l].parent = i /\ w[w[i].r].parent = i
Export == n = MaxNodes => PrintT(<<"HIST", ToJson(hist)>>)
=============================================================================
