------------------------------ MODULE TraceMode ------------------------------
(* Validation of recorded mode histories against Layer A.  One JSON line   *)
(* per behaviour: [id, evs]; event = the action (op, kind, how, i) plus    *)
(* what the API showed right after it:                                     *)
(*   mode   "none" | "query" | "rule"     in_symbolic_mode()               *)
(*   depth  size of the expression-context stack                           *)
(*   sym    "instance" | "symbolic"       what constructing a @symbol gave *)
(*   pred   "value" | "symbolic"          what calling a @predicate gave   *)
(*   oper   "rejected" | "built"          x == 1 on a variable             *)
(*   res    "row" | "stop" | "-"          what next() returned             *)
EXTENDS ModeOps, Json, IOUtils
Traces == ndJsonDeserialize(IOEnv.TRACE_FILE)
VARIABLES tid, l, a
tvars == <<tid, l, a>>

Clause(ev, s) ==
  IF ~PreA(ev, s, 1000) THEN "action-not-enabled"
  ELSE LET n == ApplyA(ev, s)
           em == ExpMode(n)
       IN IF ev.mode # em THEN "mode"
          ELSE IF ev.depth # ExpDepth(n) THEN "context-stack"
          ELSE IF ev.sym # (IF em = "none" THEN "instance" ELSE "symbolic") THEN "symbol-construction"
          ELSE IF ev.pred # (IF em = "none" THEN "value" ELSE "symbolic") THEN "predicate-call"
          ELSE IF ev.oper # (IF em = "none" THEN "rejected" ELSE "built") THEN "operator"
          ELSE IF ev.op = "next" /\ ev.res # ExpNext(ev, s) THEN "next-result"
          ELSE "ok"

Init == tid = 1 /\ l = 1 /\ a = InitA /\ TLCSet(1, {}) /\ TLCSet(2, 0)
Step == /\ tid <= Len(Traces)
        /\ IF l > Len(Traces[tid].evs)
           THEN /\ TLCSet(2, tid) /\ tid' = tid + 1 /\ l' = 1 /\ a' = InitA
           ELSE LET ev == Traces[tid].evs[l]
                    c == Clause(ev, a)
                IN IF c = "ok"
                   THEN tid' = tid /\ l' = l + 1 /\ a' = ApplyA(ev, a)
                   ELSE /\ TLCSet(1, TLCGet(1) \cup {[id |-> Traces[tid].id, at |-> l, clause |-> c]})
                        /\ TLCSet(2, tid) /\ tid' = tid + 1 /\ l' = 1 /\ a' = InitA
Spec == Init /\ [][Step]_tvars
Post == /\ PrintT(<<"CHECKED", TLCGet(2)>>)
        /\ \A f \in TLCGet(1) : PrintT(<<"REJECT", f.id, f.at, f.clause>>)
        /\ TLCGet(2) = Len(Traces)
=============================================================================
