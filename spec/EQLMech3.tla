------------------------------ MODULE EQLMech3 ------------------------------
(* Layer B, stage B3: the evaluator with its operator result caches.         *)
(* On top of EQLMech2 (operand order, required variables, seen-sets) this    *)
(* stage models                                                              *)
(*   - the result cache of every comparator (keyed by the variables of both  *)
(*     operands) and the right-operand cache of every AND / ElseIf (keyed by *)
(*     the variables of the right operand): cache_data.IndexedCache with its *)
(*     coverage list (SeenSet), entries in insertion order, and the descent  *)
(*     of IndexedCache.retrieve with the strategy as a named switch;         *)
(*   - where the evaluator consults a cache (coverage check on entry, which  *)
(*     itself marks "everything seen" when no key is bound), what it stores  *)
(*     (the output restricted to the cache's keys, with its truth flag) and  *)
(*     how a hit is replayed (false entries pass the duplicate test, true    *)
(*     ones do not);                                                         *)
(*   - what survives from one evaluation to the next: the caches do, the     *)
(*     seen-sets do not.                                                     *)
(* Obligation towards Layer A (C05): every evaluation of a history yields    *)
(* the rows of the denotation.  With the descent that follows every matching *)
(* branch it is a theorem of the bounded model; with the code's descent      *)
(* (PreferWildcardB3) TLC produces the programs of finding F2.  On trees of  *)
(* distinct leaves over overlapping variable sets of three variables (G3w,   *)
(* G3ws) the obligation needs three more things, each a named switch that    *)
(* TLC violates when set to the code before the repair: matching entries     *)
(* that repeat a more general one are not replayed (ReplayLeavesOutRepeats), *)
(* ElseIf stores a right-branch result before the duplicate test             *)
(* (ElseIfStoresDuplicates), and a binary operator requires its left         *)
(* operand's variables of its right operand's results (RightKeepsLeftVars,   *)
(* in EQLMech2).                                                             *)
(* Stage B4 (same module): the mechanism of for_all - the condition is          *)
(* evaluated once per universal value, its true results are completed over the *)
(* condition's still unbound variables, projected onto the non-universal       *)
(* variables, de-duplicated and intersected over the universal values, with an *)
(* early exit; what the quantifier requires of its condition is a named switch.*)
(* Universals that are the solutions of a sub-query leave results in the       *)
(* sub-query's caches; what an early exit does about them is the switch        *)
(* ForAllInvalidatesUniversal.                                                 *)
EXTENDS EQLMech2
CONSTANTS PreferWildcardB3,  \* TRUE: IndexedCache.retrieve before "fix: IndexedCache.retrieve ..." (wildcard branch
                             \* preferred); FALSE: follow every matching branch (the current code)
          ReplayLeavesOutRepeats,    \* TRUE: of the cache entries that match a lookup, the ones that repeat a more general
                             \* one with the same truth value are not replayed (commit "fix: a cached result stored
                             \* under a partial binding ..."); FALSE: every matching entry is replayed, as before
          ElseIfStoresDuplicates,    \* TRUE: ElseIf stores a true result of its right branch in the right cache before the
                             \* duplicate test (commit "fix: a disjunction did not cache ..."); FALSE: a result dropped
                             \* as a duplicate is not stored, although the coverage list may claim everything is known
          ForAllInvalidatesUniversal,  \* "always": every early exit of for_all clears the result caches of a universal that is
                             \* a sub-query (they are marked complete and hold the values drawn so far; commit "fix: for_all
                             \* that fails early ..."); "never": as before; "no-match-only": only the exit taken when a
                             \* universal value has no satisfying binding does, not the one taken when the intersection
                             \* with the bindings kept so far runs empty (a deviation: the two exits are separate code)
          ForAllKeepsConditionVars  \* TRUE: for_all requires all non-universal variables of its condition from the
                             \* condition's results (commit "fix: for_all lost solutions ..."); FALSE: as before

\* ---------------- the cache (IndexedCache + SeenSet) ----------------
\* a = a binding restricted to the cache's keys (0 elsewhere); ents in insertion order; o = the stored is_false flag
EmptyCache == [ents |-> <<>>, seen |-> <<>>, all |-> FALSE]
IsEmptyB(a) == \A i \in 1..Len(a) : a[i] = 0
\* SeenSet.check: an unbound lookup answers "not seen" once and marks everything seen
CCheck(c, a) ==
  IF c.all THEN [hit |-> TRUE, c |-> c]
  ELSE IF IsEmptyB(a) THEN [hit |-> FALSE, c |-> [c EXCEPT !.all = TRUE, !.seen = Append(@, a)]]
  ELSE [hit |-> \E j \in 1..Len(c.seen) : Covers(c.seen[j], a), c |-> c]
\* IndexedCache.insert: coverage entry, then the leaf (an equal path is overwritten in place)
CInsert(c, a, o) ==
  LET idx == {j \in 1..Len(c.ents) : c.ents[j].a = a}
  IN [ents |-> IF idx = {} THEN Append(c.ents, [a |-> a, o |-> o])
               ELSE [j \in 1..Len(c.ents) |-> IF j \in idx THEN [a |-> a, o |-> o] ELSE c.ents[j]],
      seen |-> IF c.all THEN c.seen ELSE Append(c.seen, a),
      all  |-> c.all \/ IsEmptyB(a)]
\* the values of key slot k among entries, in order of first appearance (dict order of that level)
RECURSIVE FirstSeen(_, _, _, _)
FirstSeen(ents, k, j, acc) ==
  IF j > Len(ents) THEN acc
  ELSE FirstSeen(ents, k, j + 1, IF \E i \in 1..Len(acc) : acc[i] = ents[j].a[k] THEN acc ELSE Append(acc, ents[j].a[k]))
\* IndexedCache.retrieve: ks = the cache's key slots in key order, i = level, b = the looked-up binding,
\* res = the binding handed back (the lookup merged with the keys found on the way)
RECURSIVE CDescend(_, _, _, _, _)
CDescend(ents, ks, i, b, res) ==
  IF ents = <<>> THEN <<>>
  ELSE IF i > Len(ks) THEN << [b |-> res, o |-> ents[1].o] >>
  ELSE LET k == ks[i]
           vals == FirstSeen(ents, k, 1, <<>>)
           has(v) == \E j \in 1..Len(vals) : vals[j] = v
           sub(v) == SelectSeq(ents, LAMBDA e : e.a[k] = v)
       IN IF b[k] # 0
          THEN IF has(b[k])
               THEN CDescend(sub(b[k]), ks, i + 1, b, res)
                    \o (IF PreferWildcardB3 \/ ~has(0) THEN <<>> ELSE CDescend(sub(0), ks, i + 1, b, res))
               ELSE IF has(0) THEN CDescend(sub(0), ks, i + 1, b, res) ELSE <<>>
          ELSE IF PreferWildcardB3 /\ has(0) THEN CDescend(sub(0), ks, i + 1, b, res)
               ELSE FlattenSeqs([j \in 1..Len(vals) |->
                      CDescend(sub(vals[j]), ks, i + 1, b, IF vals[j] = 0 THEN res ELSE [res EXCEPT ![k] = vals[j]])])

\* _leave_out_repeated_outputs_: what yield_final_output_from_cache replays of the retrieved entries - an entry stored while
\* a variable was unbound and an entry stored under a value of it can both match a lookup; a result that only binds more
\* than another one with the same flag (or equals an earlier one) stands for rows the other one already produces
Subsumes(r1, r2) == r1.o = r2.o /\ \A k \in 1..Len(r1.b) : r1.b[k] = 0 \/ r1.b[k] = r2.b[k]
Hits(ents, ks, b) ==
  LET d == CDescend(ents, ks, 1, b, b)
      idx == SelectSeq([j \in 1..Len(d) |-> j],
                       LAMBDA j : ~\E i \in 1..Len(d) : i # j /\ Subsumes(d[i], d[j]) /\ (d[i].b # d[j].b \/ i < j))
  IN IF ReplayLeavesOutRepeats THEN [t \in 1..Len(idx) |-> d[idx[t]]] ELSE d

\* key order: the cache sorts its keys by variable id, i.e. by the order in which the variables were declared
DeclRank(q, v) == IF v <= NVars(q) /\ "declare" \in DOMAIN q /\ q.declare # <<>>
                  THEN CHOOSE p \in 1..Len(q.declare) : q.declare[p] = v ELSE v      \* predicate variables come last
KeySeq(q, keys) == SortSeq(SetToSeq(keys), LAMBDA x, y : DeclRank(q, x) < DeclRank(q, y))

\* ---------------- predicate variables ----------------
\* a predicate call is a variable of the expression graph too: its id is one of the keys of every cache above it, it
\* is bound (to the call's result) in the outputs of the call and never in a lookup.  Predicate leaves get the
\* slots after the query's variables, in construction order (left to right); slot value 1 = True, 2 = False.
\* construction of conditions that contain for_all (the generator never negates a quantifier)
RECURSIVE Build4(_)
Build4(c) ==
  CASE c.k = "forall" -> [k |-> "forall", uv |-> c.uv[1], ue |-> c.ue, c |-> Build4(c.c)]
    [] c.k = "and" -> [k |-> "and", l |-> Build4(c.l), r |-> Build4(c.r)]
    [] c.k = "or"  -> [k |-> "elif", l |-> Build4(c.l), r |-> Build4(c.r)]
    [] OTHER -> Build(c)
RECURSIVE Number(_, _)
Number(n, next) ==
  CASE n.k = "pred" -> [t |-> [k |-> "pred", inv |-> n.inv, p |-> n.p, args |-> n.args, slot |-> next], next |-> next + 1]
    [] n.k \in {"and", "elif"} ->
         LET L == Number(n.l, next)
             R == Number(n.r, L.next)
         IN [t |-> [n EXCEPT !.l = L.t, !.r = R.t], next |-> R.next]
    [] n.k = "forall" -> LET C == Number(n.c, next) IN [t |-> [n EXCEPT !.c = C.t], next |-> C.next]
    [] OTHER -> [t |-> n, next |-> next]
RECURSIVE NodeVars3(_)
NodeVars3(n) ==
  CASE n.k = "pred" -> NodeVars(n) \cup {n.slot}
    [] n.k \in {"and", "elif"} -> NodeVars3(n.l) \cup NodeVars3(n.r)
    [] n.k = "forall" -> {n.uv} \cup NodeVars3(n.c)
    [] OTHER -> NodeVars(n)

LeftVars3(n) == IF RightKeepsLeftVars THEN NodeVars3(n.l) ELSE {}

\* ---------------- evaluator state: seen-sets and caches ----------------
\* S = [st : seen-sets of EQLMech2, c : caches by <<path, which>>]
CacheOf(S, key) == IF key \in DOMAIN S.c THEN S.c[key] ELSE EmptyCache
PutCache(S, key, c) == [S EXCEPT !.c = [k \in (DOMAIN S.c) \cup {key} |-> IF k = key THEN c ELSE S.c[k]]]
Dup3(S, key, b, req) == LET d == DupCheck(S.st, key, b, req) IN [dup |-> d.dup, S |-> [S EXCEPT !.st = d.st]]

\* yield_final_output_from_cache: replay the entries of a hit; a false entry passes the duplicate test of the node
RECURSIVE Replay(_, _, _, _, _, _)
Replay(ents, j, path, RF, acc, S) ==
  IF j > Len(ents) THEN [outs |-> acc, S |-> S]
  ELSE IF ents[j].o
       THEN LET d == Dup3(S, <<path, FALSE>>, ents[j].b, RF)
            IN Replay(ents, j + 1, path, RF, IF d.dup THEN acc ELSE Append(acc, Out(ents[j].b, TRUE)), d.S)
       ELSE Replay(ents, j + 1, path, RF, Append(acc, Out(ents[j].b, FALSE)), S)
\* update_cache for each produced output
RECURSIVE StoreAll(_, _, _, _, _)
StoreAll(outs, j, ckey, keys, S) ==
  IF j > Len(outs) THEN S
  ELSE StoreAll(outs, j + 1, ckey, keys, PutCache(S, ckey, CInsert(CacheOf(S, ckey), RestrictB(outs[j].b, keys), outs[j].f)))

\* ---------------- for_all over the solutions of a sub-query ----------------
\* for_all(an(entity(u, c)), ..) / for_all(an(entity(u, c)).n, ..): the universal values are the solutions of the sub-query,
\* drawn one at a time; its condition is evaluated like any other (below the path of the quantifier, branch 2) and leaves
\* results in its caches.  When the quantifier stops early after the i-th value those caches hold what was produced for
\* the values drawn so far - and claim to be complete, the first lookup bound nothing.
IsSubUniversal(n) == n.ue.k = "sub" \/ (n.ue.k = "attr" /\ n.ue.e.k = "sub")
SubCondOf(n) == IF n.ue.k = "sub" THEN n.ue.c ELSE n.ue.e.c
UnderPath(key, p) == Len(key[1]) >= Len(p) /\ SubSeq(key[1], 1, Len(p)) = p
Abandoned(n, path, S, i, nomatch) ==
  IF ~IsSubUniversal(n) THEN S
  ELSE LET sub == Append(path, 2)
       IN IF ForAllInvalidatesUniversal = "always" \/ (ForAllInvalidatesUniversal = "no-match-only" /\ nomatch)
          THEN [S EXCEPT !.c = [k \in {k2 \in DOMAIN S.c : ~UnderPath(k2, sub)} |-> S.c[k]]]
          ELSE [S EXCEPT !.c = [k \in DOMAIN S.c |-> IF UnderPath(k, sub) /\ Len(S.c[k].ents) > i
                                                      THEN [S.c[k] EXCEPT !.ents = SubSeq(@, 1, i)] ELSE S.c[k]]]

RECURSIVE Ev3(_, _, _, _, _, _, _, _, _), ForAllFold(_, _, _, _, _, _, _, _, _, _), AndFold3(_, _, _, _, _, _, _, _, _, _, _), ElifFold3(_, _, _, _, _, _, _, _, _, _, _),
          RightTrue3(_, _, _, _, _, _, _, _, _), Universals(_, _, _, _, _, _)
Universals(n, path, b, S, q, W) ==
  IF ~IsSubUniversal(n) THEN [us |-> TypedDom(q, W, n.uv), S |-> S]
  ELSE LET R == Ev3(Build(SubCondOf(n)), Append(path, 2), [b EXCEPT ![n.uv] = 0], FALSE, {n.uv}, {n.uv}, S, q, W)
           outs == SelectSeq(R.outs, LAMBDA o : ~o.f)
       IN [us |-> [j \in 1..Len(outs) |-> outs[j].b[n.uv]], S |-> R.S]
Ev3(n, path, b, ywf, RT, RF, S, q, W) ==
  CASE n.k \in {"cmp", "in"} ->
         LET ckey == <<path, "own">>
             keys == NodeVars3(n)
             chk == CCheck(CacheOf(S, ckey), RestrictB(b, keys))
             S1 == PutCache(S, ckey, chk.c)
         IN IF keys = {} THEN [outs |-> Ev(n, b, ywf, q, W), S |-> S]
            ELSE IF chk.hit THEN Replay(Hits(chk.c.ents, KeySeq(q, keys), b), 1, path, RF, <<>>, S1)
            ELSE LET outs == Ev(n, b, ywf, q, W) IN [outs |-> outs, S |-> StoreAll(outs, 1, ckey, keys, S1)]
    [] n.k = "truth" -> [outs |-> Ev(n, b, ywf, q, W), S |-> S]
    [] n.k = "pred" ->
         LET outs == Ev(n, b, ywf, q, W)
         IN [outs |-> [j \in 1..Len(outs) |->
                         Out([outs[j].b EXCEPT ![n.slot] = IF (IF n.inv THEN outs[j].f ELSE ~outs[j].f) THEN 1 ELSE 2], outs[j].f)],
             S |-> S]
    [] n.k = "forall" ->
         \* the universal values in domain order (for_all(u.n, c) ranges over the objects of u as well)
         LET U == Universals(n, path, b, S, q, W)
         IN ForAllFold(n, path, b, RT, RF, U.us, 1, <<>>, U.S, <<q, W>>)
    [] n.k = "and" ->
         LET L == Ev3(n.l, Append(path, 0), b, ywf,
                      NodeVars3(n.r) \cup RT \cup (IF AndLeftTrueNeedsFalseSet THEN RF ELSE {}), NodeVars3(n.r) \cup RF, S, q, W)
         IN AndFold3(n, path, b, ywf, RT, RF, L.outs, 1, <<>>, L.S, <<q, W>>)
    [] n.k = "elif" ->
         LET L == Ev3(n.l, Append(path, 0), b, TRUE, RT, NodeVars3(n.r) \cup RT \cup RF, S, q, W)
         IN IF L.outs = <<>>
            THEN LET R == Ev3(n.r, Append(path, 1), b, ywf, RT \cup LeftVars3(n), RF \cup LeftVars3(n), L.S, q, W)
                     kept == SelectSeq(R.outs, LAMBDA o : ywf \/ ~o.f)
                 IN [outs |-> kept, S |-> StoreAll(kept, 1, <<path, "right">>, NodeVars3(n.r), R.S)]
            ELSE ElifFold3(n, path, b, ywf, RT, RF, L.outs, 1, <<>>, L.S, <<q, W>>)

RECURSIVE Dedupe(_, _, _)
Dedupe(bs, j, acc) == IF j > Len(bs) THEN acc
                      ELSE Dedupe(bs, j + 1, IF \E i \in 1..Len(acc) : acc[i] = bs[j] THEN acc ELSE Append(acc, bs[j]))
\* the variables of a condition in the order of their first occurrence (the order of _unique_variables_)
RECURSIVE VarOcc(_)
VarOcc(n) ==
  CASE n.k \in {"cmp", "in"} -> <<VarOf(n.l), VarOf(n.r)>>
    [] n.k = "truth" -> <<VarOf(n.e)>>
    [] n.k = "pred" -> [j \in 1..Len(n.args) |-> VarOf(n.args[j])]
    [] n.k \in {"and", "elif"} -> VarOcc(n.l) \o VarOcc(n.r)
    [] n.k = "forall" -> <<n.uv>> \o VarOcc(n.c)
VarSeq(n) == Dedupe(SelectSeq(VarOcc(n), LAMBDA v : v # 0), 1, <<>>)
\* the non-universal variables of the condition whose bindings are intersected (predicate variables are not among them)
CondVars(n, q) == {v \in NodeVars3(n.c) : v <= NVars(q)} \ {n.uv}
RECURSIVE BindAll(_, _, _, _, _)
BindAll(vs, k, b, q, W) ==          \* _bind_unbound_condition_variables_: the unbound ones over their domains, in order
  IF k > Len(vs) THEN <<b>>
  ELSE IF b[vs[k]] # 0 THEN BindAll(vs, k + 1, b, q, W)
  ELSE LET d == TypedDom(q, W, vs[k])
       IN FlattenSeqs([j \in 1..Len(d) |-> BindAll(vs, k + 1, [b EXCEPT ![vs[k]] = d[j]], q, W)])
ForAllFold(n, path, b, RT, RF, us, i, sol, S, qw) ==
  IF i > Len(us) THEN [outs |-> [j \in 1..Len(sol) |-> Out(MergeB(b, sol[j]), FALSE)], S |-> S]
  ELSE LET q == qw[1]  W == qw[2]
           cv == CondVars(n, q)
           extra == {n.uv} \cup (IF ForAllKeepsConditionVars THEN cv ELSE {})
           R == Ev3(n.c, Append(path, 1), [b EXCEPT ![n.uv] = us[i]], FALSE, RT \cup extra, RF \cup extra, S, q, W)
           trues == SelectSeq(R.outs, LAMBDA o : ~o.f)
           vs == KeySeq(q, cv)      \* in the order of their ids, i.e. of declaration (HashedIterable.difference goes through a set of ids)
           complete == FlattenSeqs([j \in 1..Len(trues) |-> BindAll(vs, 1, trues[j].b, q, W)])
           current == Dedupe([j \in 1..Len(complete) |-> RestrictB(complete[j], cv)], 1, <<>>)
           sol2 == IF i = 1 THEN current ELSE SelectSeq(sol, LAMBDA d : \E j \in 1..Len(current) : current[j] = d)
       IN IF current = <<>> \/ sol2 = <<>> THEN [outs |-> <<>>, S |-> Abandoned(n, path, R.S, i, current = <<>>)]     \* the universal fails: early exit
          ELSE ForAllFold(n, path, b, RT, RF, us, i + 1, sol2, R.S, qw)

AndFold3(n, path, b, ywf, RT, RF, louts, i, acc, S, qw) ==
  IF i > Len(louts) THEN [outs |-> acc, S |-> S]
  ELSE LET lo == louts[i]
           lb == MergeB(b, lo.b)
       IN IF ywf /\ lo.f
          THEN LET d == Dup3(S, <<path, FALSE>>, lb, RF)
               IN AndFold3(n, path, b, ywf, RT, RF, louts, i + 1, IF d.dup THEN acc ELSE Append(acc, Out(lb, TRUE)), d.S, qw)
          ELSE LET ckey == <<path, "right">>
                   keys == NodeVars3(n.r)
                   chk == CCheck(CacheOf(S, ckey), RestrictB(lb, keys))
                   S1 == PutCache(S, ckey, chk.c)
               IN IF chk.hit
                  THEN LET H == Replay(Hits(chk.c.ents, KeySeq(qw[1], keys), lb), 1, path, RF, <<>>, S1)
                       IN AndFold3(n, path, b, ywf, RT, RF, louts, i + 1, acc \o H.outs, H.S, qw)
                  ELSE LET R == Ev3(n.r, Append(path, 1), lb, ywf, RT \cup LeftVars3(n), RF \cup LeftVars3(n), S1, qw[1], qw[2])
                           outs == [j \in 1..Len(R.outs) |-> Out(MergeB(lb, R.outs[j].b), R.outs[j].f)]
                       IN AndFold3(n, path, b, ywf, RT, RF, louts, i + 1, acc \o outs,
                                   StoreAll(outs, 1, ckey, keys, R.S), qw)

\* the outputs of ElseIf's right branch under one false left output, each stored in the right cache as it is yielded
RightTrue3(path, RT, routs, lb, j, acc, S, ywf, keys) ==
  IF j > Len(routs) THEN [outs |-> acc, S |-> S]
  ELSE LET ro == routs[j]
           ob == MergeB(lb, ro.b)
           ckey == <<path, "right">>
           put(S0, f) == PutCache(S0, ckey, CInsert(CacheOf(S0, ckey), RestrictB(ob, keys), f))
       IN IF ro.f
          THEN IF ywf THEN RightTrue3(path, RT, routs, lb, j + 1, Append(acc, Out(ob, TRUE)), put(S, TRUE), ywf, keys)
               ELSE RightTrue3(path, RT, routs, lb, j + 1, acc, S, ywf, keys)
          ELSE LET d == Dup3(S, <<path, TRUE>>, ob, RT)
               IN IF d.dup THEN RightTrue3(path, RT, routs, lb, j + 1, acc,
                                           IF ElseIfStoresDuplicates THEN put(d.S, FALSE) ELSE d.S, ywf, keys)
                  ELSE RightTrue3(path, RT, routs, lb, j + 1, Append(acc, Out(ob, FALSE)), put(d.S, FALSE), ywf, keys)

ElifFold3(n, path, b, ywf, RT, RF, louts, i, acc, S, qw) ==
  IF i > Len(louts) THEN [outs |-> acc, S |-> S]
  ELSE LET lo == louts[i]
           lb == MergeB(b, lo.b)
       IN IF lo.f
          THEN LET ckey == <<path, "right">>
                   keys == NodeVars3(n.r)
                   chk == CCheck(CacheOf(S, ckey), RestrictB(lb, keys))
                   S1 == PutCache(S, ckey, chk.c)
               IN IF chk.hit
                  THEN LET H == Replay(Hits(chk.c.ents, KeySeq(qw[1], keys), lb), 1, path, RF, <<>>, S1)
                       IN ElifFold3(n, path, b, ywf, RT, RF, louts, i + 1, acc \o H.outs, H.S, qw)
                  ELSE LET R == Ev3(n.r, Append(path, 1), lb, ywf, RT \cup LeftVars3(n), RF \cup LeftVars3(n), S1, qw[1], qw[2])
                           T == RightTrue3(path, RT, R.outs, lb, 1, <<>>, R.S, ywf, keys)
                       IN ElifFold3(n, path, b, ywf, RT, RF, louts, i + 1, acc \o T.outs, T.S, qw)
          ELSE ElifFold3(n, path, b, ywf, RT, RF, louts, i + 1, Append(acc, Out(lb, FALSE)), S, qw)

\* ---------------- a history of evaluations of one query object ----------------
EmptyS == [st |-> EmptySt, c |-> [x \in {} |-> EmptyCache]]
\* one evaluation from the caches `c` left by the previous ones: [rows, c]
Evaluate3(q, W, c) ==
  IF q.cond.k = "true" THEN [rows |-> MechRowSeq2(q, W), c |-> c]
  ELSE LET N == Number(Build4(q.cond), NVars(q) + 1)
           b0 == [i \in 1..(N.next - 1) |-> 0]
           R == Ev3(N.t, <<>>, b0, FALSE, SelVars(q), SelVars(q), [st |-> EmptySt, c |-> c], q, W)
           outs == SelectSeq(R.outs, LAMBDA o : ~o.f)
           bs == FlattenSeqs([i \in 1..Len(outs) |-> BindSel(q.sel, 1, outs[i].b, q, W)])
       IN [rows |-> [i \in 1..Len(bs) |-> RowOf(q, W, EnvOf(bs[i]))], c |-> R.S.c]
\* the rows of the k-th of k successive complete evaluations
RECURSIVE NthEval(_, _, _, _)
NthEval(q, W, k, c) == LET e == Evaluate3(q, W, c) IN IF k <= 1 THEN e ELSE NthEval(q, W, k - 1, e.c)
MechRowSeq3(q, W, k) == NthEval(q, W, k, EmptyS.c).rows

\* obligations towards Layer A (C05): the k-th evaluation with caching enabled returns the denotation's rows
Mech3Sound(q, W, k)    == LET m == MechRowSeq3(q, W, k)  r == RowSeq(q, W) IN \A i \in 1..Len(m) : HasRow(r, m[i])
Mech3Complete(q, W, k) == LET m == MechRowSeq3(q, W, k)  r == RowSeq(q, W) IN \A i \in 1..Len(r) : HasRow(m, r[i])
Mech3NoDup(q, W, k)    == LET m == MechRowSeq3(q, W, k)
                          IN CompareMode(q) = "bag" => \A i, j \in 1..Len(m) : i # j => ~SameRow(m[i], m[j])
=============================================================================
