------------------------------ MODULE EQLMech2 ------------------------------
(* Layer B, stage B2: the evaluator with its duplicate suppression.          *)
(* On top of EQLMech (Build, leaf evaluation, operand order) this stage      *)
(* models what stage B1 left out:                                            *)
(*   - the variables a parent still *requires* of a child's outputs,         *)
(*     separately for true and for false outputs                             *)
(*     (_required_variables_from_child_ of AND / OR / descriptor);           *)
(*   - the per-node, per-truth-value seen-sets (cache_data.SeenSet) in which *)
(*     AND records its false left outputs and ElseIf the true outputs of its *)
(*     right branch, and the subset test that declares an output a duplicate;*)
(*   - the order in which the generators interleave.                         *)
(* Result caches are not part of this stage (they are switched off when the  *)
(* model is compared with the code).                                         *)
EXTENDS EQLMech
CONSTANT RightKeepsLeftVars         \* TRUE: a binary operator requires the variables of its left operand of its right operand's
                                    \* results as well (commit "fix: results of a right operand that differ in a variable of the
                                    \* left operand ..."); FALSE: only what the operator's parent requires, as before
CONSTANT AndLeftTrueNeedsFalseSet   \* TRUE: commit "fix: a true left operand of a conjunction ..."; FALSE: as before

\* variables (slots) a built node mentions
RECURSIVE NodeVars(_)
NodeVars(n) ==
  CASE n.k \in {"cmp", "in"} -> ({VarOf(n.l)} \cup {VarOf(n.r)}) \ {0}
    [] n.k = "truth" -> {VarOf(n.e)} \ {0}
    [] n.k = "pred" -> {VarOf(n.args[j]) : j \in 1..Len(n.args)} \ {0}
    [] n.k \in {"and", "elif"} -> NodeVars(n.l) \cup NodeVars(n.r)

\* seen-sets: st[path][truth] is a sequence of recorded assignments (0 = variable absent)
RestrictB(b, req) == [i \in 1..Len(b) |-> IF i \in req THEN b[i] ELSE 0]
Covers(c, a) == \A i \in 1..Len(c) : c[i] # 0 => a[i] = c[i]              \* SeenSet.check: a recorded constraint is contained in a
SeenOf(st, key) == IF key \in DOMAIN st THEN st[key] ELSE <<>>
PutSeen(st, key, a) == [k \in (DOMAIN st) \cup {key} |-> IF k = key THEN Append(SeenOf(st, key), a) ELSE st[k]]
\* _is_duplicate_output_: [dup, st]
DupCheck(st, key, b, req) ==
  LET a == RestrictB(b, req) IN
  IF req = {} \/ \A i \in 1..Len(a) : a[i] = 0 THEN [dup |-> FALSE, st |-> st]
  ELSE IF \E j \in 1..Len(SeenOf(st, key)) : Covers(SeenOf(st, key)[j], a) THEN [dup |-> TRUE, st |-> st]
  ELSE [dup |-> FALSE, st |-> PutSeen(st, key, a)]

\* Ev2(n, path, b, ywf, RT, RF, st): outputs in generator order and the seen-sets afterwards.
\*   RT / RF: the variables the parent requires of this node's true / false outputs
\* what the right operand is asked to keep in addition to what the operator's parent requires
LeftVars(n) == IF RightKeepsLeftVars THEN NodeVars(n.l) ELSE {}
RECURSIVE Ev2(_, _, _, _, _, _, _, _, _), AndFold(_, _, _, _, _, _, _, _, _, _, _), ElifFold(_, _, _, _, _, _, _, _, _, _, _),
          RightTrue(_, _, _, _, _, _, _, _)
Ev2(n, path, b, ywf, RT, RF, st, q, W) ==
  CASE n.k \in {"cmp", "in", "truth", "pred"} -> [outs |-> Ev(n, b, ywf, q, W), st |-> st]
    [] n.k = "and" ->
         \* what AND requires of its left operand: the right operand's variables; where the left is true the
         \* conjunction may still turn out false, so both of the parent's sets
         LET L == Ev2(n.l, Append(path, 0), b, ywf,
                      NodeVars(n.r) \cup RT \cup (IF AndLeftTrueNeedsFalseSet THEN RF ELSE {}), NodeVars(n.r) \cup RF, st, q, W)
         IN AndFold(n, path, b, ywf, RT, RF, L.outs, 1, <<>>, L.st, <<q, W>>)
    [] n.k = "elif" ->
         LET L == Ev2(n.l, Append(path, 0), b, TRUE, RT, NodeVars(n.r) \cup RT \cup RF, st, q, W)
         IN IF L.outs = <<>>
            THEN Ev2(n.r, Append(path, 1), b, ywf, RT \cup LeftVars(n), RF \cup LeftVars(n), L.st, q, W)
            ELSE ElifFold(n, path, b, ywf, RT, RF, L.outs, 1, <<>>, L.st, <<q, W>>)

AndFold(n, path, b, ywf, RT, RF, louts, i, acc, st, qw) ==
  IF i > Len(louts) THEN [outs |-> acc, st |-> st]
  ELSE LET lo == louts[i]
           lb == MergeB(b, lo.b)
       IN IF ywf /\ lo.f
          THEN LET d == DupCheck(st, <<path, FALSE>>, lb, RF)        \* a false left output, de-duplicated on what is required where AND is false
               IN AndFold(n, path, b, ywf, RT, RF, louts, i + 1, IF d.dup THEN acc ELSE Append(acc, Out(lb, TRUE)), d.st, qw)
          ELSE LET R == Ev2(n.r, Append(path, 1), lb, ywf, RT \cup LeftVars(n), RF \cup LeftVars(n), st, qw[1], qw[2])
               IN AndFold(n, path, b, ywf, RT, RF, louts, i + 1,
                          acc \o [j \in 1..Len(R.outs) |-> Out(MergeB(lb, R.outs[j].b), R.outs[j].f)], R.st, qw)

\* the outputs of ElseIf's right branch under one false left output
RightTrue(path, RT, routs, lb, j, acc, st, ywf) ==
  IF j > Len(routs) THEN [outs |-> acc, st |-> st]
  ELSE LET ro == routs[j]
           ob == MergeB(lb, ro.b)
       IN IF ro.f THEN RightTrue(path, RT, routs, lb, j + 1, IF ywf THEN Append(acc, Out(ob, TRUE)) ELSE acc, st, ywf)
          ELSE LET d == DupCheck(st, <<path, TRUE>>, ob, RT)
               IN RightTrue(path, RT, routs, lb, j + 1, IF d.dup THEN acc ELSE Append(acc, Out(ob, FALSE)), d.st, ywf)

ElifFold(n, path, b, ywf, RT, RF, louts, i, acc, st, qw) ==
  IF i > Len(louts) THEN [outs |-> acc, st |-> st]
  ELSE LET lo == louts[i]
           lb == MergeB(b, lo.b)
       IN IF lo.f
          THEN LET R == Ev2(n.r, Append(path, 1), lb, ywf, RT \cup LeftVars(n), RF \cup LeftVars(n), st, qw[1], qw[2])
                   T == RightTrue(path, RT, R.outs, lb, 1, <<>>, R.st, ywf)
               IN ElifFold(n, path, b, ywf, RT, RF, louts, i + 1, acc \o T.outs, T.st, qw)
          ELSE ElifFold(n, path, b, ywf, RT, RF, louts, i + 1, Append(acc, Out(lb, FALSE)), st, qw)

\* the descriptor requires the variables of the selected expressions, of true and of false outputs alike
SelVars(q) == {VarOf(q.sel[k]) : k \in 1..Len(q.sel)} \ {0}
EmptySt == [x \in {} |-> <<>>]
MechBindings2(q, W) ==
  LET outs == IF q.cond.k = "true" THEN <<Out(NoBinding(q), FALSE)>>
              ELSE SelectSeq(Ev2(Build(q.cond), <<>>, NoBinding(q), FALSE, SelVars(q), SelVars(q), EmptySt, q, W).outs,
                             LAMBDA o : ~o.f)
  IN FlattenSeqs([i \in 1..Len(outs) |-> BindSel(q.sel, 1, outs[i].b, q, W)])
MechRowSeq2(q, W) == LET bs == MechBindings2(q, W) IN [i \in 1..Len(bs) |-> RowOf(q, W, EnvOf(bs[i]))]

\* obligations towards Layer A: duplicate suppression loses no row, adds none, and when every variable is selected
\* no row comes twice
Mech2Sound(q, W)    == LET m == MechRowSeq2(q, W)  r == RowSeq(q, W) IN \A i \in 1..Len(m) : HasRow(r, m[i])
Mech2Complete(q, W) == LET m == MechRowSeq2(q, W)  r == RowSeq(q, W) IN \A i \in 1..Len(r) : HasRow(m, r[i])
Mech2NoDup(q, W)    == LET m == MechRowSeq2(q, W)
                       IN CompareMode(q) = "bag" => \A i, j \in 1..Len(m) : i # j => ~SameRow(m[i], m[j])
=============================================================================
