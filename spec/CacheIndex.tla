---------------------------- MODULE CacheIndex ----------------------------
(* State machine over the index: every history of inserts (full and      *)
(* partial bindings, overwrites) and clears up to MaxOps operations;     *)
(* after every operation every lookup is checked (invariants).           *)
EXTENDS CacheIndexOps
CONSTANT MaxOps

\* ---------------- state machine ----------------
VARIABLES store, tree, seen, allseen, n, hist
vars == <<store, tree, seen, allseen, n, hist>>

Init == store = <<>> /\ tree = EmptyTree /\ seen = <<>> /\ allseen = FALSE /\ n = 0 /\ hist = <<>>
Insert(b) == /\ n < MaxOps
             /\ store' = StorePut(store, b, n + 1)
             /\ tree' = TreePut(tree, b, n + 1)
             /\ seen' = IF allseen THEN seen ELSE Append(seen, b)
             /\ n' = n + 1 /\ allseen' = (allseen \/ b = Unbound)     \* an empty binding covers every lookup
             /\ hist' = Append(hist, [op |-> "insert", b |-> b, o |-> n + 1])
Clear == /\ n < MaxOps /\ n > 0
         /\ store' = <<>> /\ tree' = EmptyTree /\ seen' = <<>> /\ allseen' = FALSE /\ n' = n + 1
         /\ hist' = Append(hist, [op |-> "clear", b |-> Unbound, o |-> 0])
Next == (\E b \in Bindings : Insert(b)) \/ Clear
Spec == Init /\ [][Next]_vars

View == <<store, tree, seen, allseen, n>>
\* the property, as obligations on the mechanism (hold with PreferWildcard = FALSE)
RetrieveOK == \A lk \in Lookups : RetrieveMech(tree, lk) = RetrieveRef(store, lk)
CheckOK == \A lk \in Lookups \ {Unbound} : CheckMech(seen, allseen, lk) = CheckRef(store, lk)
\* what the code's descent loses (used to show non-vacuity of the known finding)
Export == n = MaxOps => PrintT(<<"HIST", ToJson(hist)>>)
===========================================================================
