----------------------------- MODULE EvalSession -----------------------------
(* Histories of evaluations over a pool of queries (C04, C05).  Layer A:    *)
(* the answer of an evaluation is a function of (query, world) alone, so    *)
(* the state of the promise is only which configuration is active; what an  *)
(* earlier evaluation did (completed, abandoned after k results, aborted by *)
(* an exception at the j-th call of a user predicate) never appears in the  *)
(* Out set of a later one.  The machine enumerates the histories; the trace *)
(* specification TraceQuery judges every evaluation of a recorded history   *)
(* against the denotation irrespective of its position.                     *)
EXTENDS Naturals, Sequences, FiniteSets, TLC, Json
CONSTANTS NQ, MaxLen, WithCfg,
          WithBuild    \* TRUE: constructing a query object is a step of the history (it happens under whatever
                       \* configuration is active then); FALSE: every query exists before the history starts
VARIABLES caching, residue, hist, built
vars == <<caching, residue, hist, built>>
\* built[q]: "-" not constructed yet, else the configuration under which q was constructed - again history
\* information the promise must not depend on
\* residue[q]: what the last evaluation of q left behind in the mechanism ("clean" after a completed one);
\* it is history information the promise must NOT depend on
Ops == [op : {"drain"}, qi : 1..NQ, k : {0}, how : {"-"}]
       \cup [op : {"partial"}, qi : 1..NQ, k : {1, 2}, how : {"close", "drop"}]
       \cup [op : {"raised"}, qi : 1..NQ, k : {1, 2, 3}, how : {"-"}]
       \cup (IF WithCfg THEN [op : {"cfg"}, qi : {0}, k : {0, 1}, how : {"-"}] ELSE {})
       \cup (IF WithBuild THEN [op : {"build"}, qi : 1..NQ, k : {0}, how : {"-"}] ELSE {})
Init == /\ caching = TRUE /\ residue = [q \in 1..NQ |-> "clean"] /\ hist = <<>>
        /\ built = [q \in 1..NQ |-> IF WithBuild THEN "-" ELSE "on"]
Do(o) == /\ IF o.op = "build" THEN built[o.qi] = "-"                 \* constructed once
            ELSE o.op # "cfg" => built[o.qi] # "-"                    \* evaluated only once it exists
         /\ built' = IF o.op = "build" THEN [built EXCEPT ![o.qi] = IF caching THEN "on" ELSE "off"] ELSE built
         /\ hist' = Append(hist, o)
         /\ caching' = IF o.op = "cfg" THEN o.k = 1 ELSE caching
         /\ residue' = CASE o.op = "drain" -> [residue EXCEPT ![o.qi] = "clean"]
                         [] o.op = "partial" -> [residue EXCEPT ![o.qi] = "abandoned"]
                         [] o.op = "raised" -> [residue EXCEPT ![o.qi] = "aborted"]
                         [] OTHER -> residue
Next == \E o \in Ops : Do(o)
Spec == Init /\ [][Next]_vars
Bound == Len(hist) <= MaxLen
\* export only histories that end with a full evaluation (the one whose answer is judged last)
Export == (Len(hist) = MaxLen /\ hist[MaxLen].op = "drain") => PrintT(<<"BEH", ToJson(hist)>>)
TypeOK == /\ caching \in BOOLEAN /\ \A q \in 1..NQ : residue[q] \in {"clean", "abandoned", "aborted"}
          /\ \A q \in 1..NQ : built[q] \in {"-", "on", "off"}
=============================================================================
