------------------------------ MODULE EQLMech ------------------------------
(* Layer B: how the library computes a query - a mechanism model of the      *)
(* evaluator (symbolic.py), structured like the code: one operator per       *)
(* _evaluate__ method returning the sequence of (binding, is_false) pairs it *)
(* yields, in generator order.                                               *)
(*   Build     what the public API constructs from a condition: Not() is a   *)
(*             rewrite applied at construction (De Morgan over AND / ElseIf,  *)
(*             toggling the invert flag of leaves, inverting comparison       *)
(*             operators through a table); or_ / | always builds ElseIf.      *)
(*   Ev        Comparator (operand order chosen by what is bound, values of   *)
(*             operands passed on whatever their truthiness), DomainMapping   *)
(*             in condition position (truthiness, invert), predicate calls    *)
(*             (arguments bound one after the other), AND, ElseIf with the    *)
(*             yield_when_false protocol.                                    *)
(*   Descriptor  true outputs; selected expressions still unbound are bound   *)
(*             one after the other; projection.                              *)
(* Stage B1: no per-parent duplicate suppression and no result caches (both  *)
(* are meant to be transparent: C02, C05); so rows are compared as sets for  *)
(* several variables and as sequences for one variable.                      *)
EXTENDS EQLSem

\* ---------------- construction ----------------
ReflectOp(op) == CASE op = "lt" -> "gt" [] op = "gt" -> "lt" [] op = "le" -> "ge" [] op = "ge" -> "le" [] OTHER -> op
InvOp(op) == CASE op = "eq" -> "ne" [] op = "ne" -> "eq" [] op = "lt" -> "ge" [] op = "ge" -> "lt"
               [] op = "gt" -> "le" [] op = "le" -> "gt"
RECURSIVE Build(_), Negate(_)
Negate(n) ==
  CASE n.k = "cmp"  -> [n EXCEPT !.inv = ~n.inv, !.op = InvOp(n.op)]
    [] n.k \in {"in", "truth", "pred"} -> [n EXCEPT !.inv = ~n.inv]
    [] n.k = "and"  -> [k |-> "elif", l |-> Negate(n.l), r |-> Negate(n.r)]
    [] n.k = "elif" -> [k |-> "and", l |-> Negate(n.l), r |-> Negate(n.r)]
Build(c) ==
  CASE c.k = "cmp"   -> IF c.l.k = "lit"        \* Python reflects `1 > x.n` to `x.n < 1`: the expression is always on the left
                        THEN [k |-> "cmp", op |-> ReflectOp(c.op), inv |-> FALSE, l |-> c.r, r |-> c.l]
                        ELSE [k |-> "cmp", op |-> c.op, inv |-> FALSE, l |-> c.l, r |-> c.r]
    [] c.k = "in"    -> [k |-> "in", inv |-> FALSE, l |-> c.cont, r |-> c.item]      \* Comparator(container, item, contains)
    [] c.k = "truth" -> [k |-> "truth", inv |-> FALSE, e |-> c.e]
    [] c.k = "pred"  -> [k |-> "pred", inv |-> FALSE, p |-> c.p, args |-> c.args]
    [] c.k = "and"   -> [k |-> "and", l |-> Build(c.l), r |-> Build(c.r)]
    [] c.k = "or"    -> [k |-> "elif", l |-> Build(c.l), r |-> Build(c.r)]
    [] c.k = "not"   -> Negate(Build(c.c))

\* ---------------- evaluation ----------------
\* a binding: sequence over the query's variables, 0 = unbound, else a heap index
NoBinding(q) == [i \in 1..NVars(q) |-> 0]
EnvOf(b) == [i \in 1..Len(b) |-> IF b[i] = 0 THEN NoneV ELSE ObjV(b[i])]
AnyBound(b) == \E i \in 1..Len(b) : b[i] # 0
MergeB(a, b) == [i \in 1..Len(a) |-> IF b[i] # 0 THEN b[i] ELSE a[i]]
\* the variable an operand expression ranges over (0 for a literal)
RECURSIVE VarOf(_)
VarOf(e) == CASE e.k = "var" -> e.i
              [] e.k = "lit" -> 0
              [] e.k \in {"attr", "idx", "mcall"} -> VarOf(e.e)
TypedDom(q, W, v) == SelectSeq(q.vars[v].dom, LAMBDA o : IsInst(W, o, q.vars[v].cls))
\* values of an operand under a binding: the variable is taken from the binding or iterated over its domain
OperandVals(e, b, q, W) ==
  LET v == VarOf(e) IN
  IF v = 0 \/ b[v] # 0 THEN << [b |-> b, val |-> Val(e, EnvOf(b), q, W)] >>
  ELSE LET d == TypedDom(q, W, v)
       IN [j \in 1..Len(d) |-> LET b2 == [b EXCEPT ![v] = d[j]] IN [b |-> b2, val |-> Val(e, EnvOf(b2), q, W)]]

\* predicate arguments are bound one after the other
RECURSIVE ArgVals(_, _, _, _, _)
ArgVals(args, k, b, q, W) ==
  IF k > Len(args) THEN << [b |-> b, vals |-> <<>>] >>
  ELSE LET first == OperandVals(args[k], b, q, W)
       IN FlattenSeqs([i \in 1..Len(first) |->
            LET rest == ArgVals(args, k + 1, first[i].b, q, W)
            IN [j \in 1..Len(rest) |-> [b |-> rest[j].b, vals |-> <<first[i].val>> \o rest[j].vals]]])

Out(b, f) == [b |-> b, f |-> f]
RECURSIVE Ev(_, _, _, _, _)
Ev(n, b, ywf, q, W) ==
  CASE n.k \in {"cmp", "in"} ->
         \* get_first_second_operands: the right operand first when its variable is already bound
         LET rv == VarOf(n.r)
             swap == AnyBound(b) /\ rv # 0 /\ b[rv] # 0
             fst == IF swap THEN n.r ELSE n.l
             snd == IF swap THEN n.l ELSE n.r
             fvs == OperandVals(fst, b, q, W)
         IN FlattenSeqs([i \in 1..Len(fvs) |->
              LET svs == OperandVals(snd, fvs[i].b, q, W)
              IN FlattenSeqs([j \in 1..Len(svs) |->
                   LET lval == IF swap THEN svs[j].val ELSE fvs[i].val
                       rval == IF swap THEN fvs[i].val ELSE svs[j].val
                       res == IF n.k = "cmp" THEN Cmp(n.op, lval, rval) ELSE (PyIn(rval, lval) # n.inv)
                   IN IF res \/ ywf THEN <<Out(svs[j].b, ~res)>> ELSE <<>>])])
    [] n.k = "truth" ->
         LET vs == OperandVals(n.e, b, q, W)
         IN FlattenSeqs([i \in 1..Len(vs) |->
              LET false == (PyTruthy(vs[i].val) = n.inv)
              IN IF ywf \/ ~false THEN <<Out(vs[i].b, false)>> ELSE <<>>])
    [] n.k = "pred" ->
         LET as == ArgVals(n.args, 1, b, q, W)
         IN FlattenSeqs([i \in 1..Len(as) |->
              LET false == (PredHolds(n.p, as[i].vals) = n.inv)
              IN IF ywf \/ ~false THEN <<Out(as[i].b, false)>> ELSE <<>>])
    [] n.k = "and" ->
         LET lvs == Ev(n.l, b, ywf, q, W)
         IN FlattenSeqs([i \in 1..Len(lvs) |->
              IF ywf /\ lvs[i].f THEN <<Out(MergeB(b, lvs[i].b), TRUE)>>
              ELSE LET lb == MergeB(b, lvs[i].b)
                       rvs == Ev(n.r, lb, ywf, q, W)
                   IN [j \in 1..Len(rvs) |-> Out(MergeB(lb, rvs[j].b), rvs[j].f)]])
    [] n.k = "elif" ->
         LET lvs == Ev(n.l, b, TRUE, q, W)
         IN IF lvs = <<>>
            THEN Ev(n.r, b, ywf, q, W)      \* the left side produced nothing at all
            ELSE FlattenSeqs([i \in 1..Len(lvs) |->
                   LET lb == MergeB(b, lvs[i].b) IN
                   IF lvs[i].f
                   THEN LET rvs == Ev(n.r, lb, ywf, q, W)
                        IN [j \in 1..Len(rvs) |-> Out(MergeB(lb, rvs[j].b), rvs[j].f)]
                   ELSE <<Out(lb, FALSE)>>])

\* ---------------- descriptor: bind selected expressions one after the other, project ----------------
RECURSIVE BindSel(_, _, _, _, _)
BindSel(sel, k, b, q, W) ==
  IF k > Len(sel) THEN <<b>>
  ELSE LET vs == OperandVals(sel[k], b, q, W)
       IN FlattenSeqs([i \in 1..Len(vs) |-> BindSel(sel, k + 1, vs[i].b, q, W)])
MechBindings(q, W) ==
  LET outs == IF q.cond.k = "true" THEN <<Out(NoBinding(q), FALSE)>>
              ELSE SelectSeq(Ev(Build(q.cond), NoBinding(q), FALSE, q, W), LAMBDA o : ~o.f)
  IN FlattenSeqs([i \in 1..Len(outs) |-> BindSel(q.sel, 1, outs[i].b, q, W)])
MechRowSeq(q, W) == LET bs == MechBindings(q, W) IN [i \in 1..Len(bs) |-> RowOf(q, W, EnvOf(bs[i]))]

\* ---------------- obligations of the mechanism towards Layer A ----------------
MechSound(q, W)    == LET m == MechRowSeq(q, W)  r == RowSeq(q, W) IN \A i \in 1..Len(m) : HasRow(r, m[i])
MechComplete(q, W) == LET m == MechRowSeq(q, W)  r == RowSeq(q, W) IN \A i \in 1..Len(r) : HasRow(m, r[i])
\* one variable: exactly the filter of the domain, in order, each once
MechExact(q, W)    == LET m == MechRowSeq(q, W)  r == RowSeq(q, W)
                      IN Len(m) = Len(r) /\ \A i \in 1..Len(r) : SameRow(m[i], r[i])
=============================================================================
