--------------------------- MODULE EQLValues ---------------------------
(* Tagged Python values and the CPython operations the query language    *)
(* exposes: truthiness, ==, <, in, a few methods.  Every value is a      *)
(* record [t, v]:                                                        *)
(*   int   v \in Int          bool  v \in BOOLEAN     none  v = 0         *)
(*   str   v \in Seq(Nat)  (letters are small naturals)                  *)
(*   list / tuple   v \in Seq(value)        obj   v = heap index         *)
(*   dict  v \in Seq(<<key value, value>>)                               *)
(* The tag is always inspected before v so that TLC never compares       *)
(* values of different TLA+ sorts.                                       *)
EXTENDS Naturals, Integers, Sequences, FiniteSets, TLC

IntV(n)  == [t |-> "int",  v |-> n]
BoolV(b) == [t |-> "bool", v |-> b]
NoneV    == [t |-> "none", v |-> 0]
ObjV(i)  == [t |-> "obj",  v |-> i]
ListV(s) == [t |-> "list", v |-> s]

IsNum(x) == x.t \in {"int", "bool"}
NumOf(x) == IF x.t = "bool" THEN (IF x.v THEN 1 ELSE 0) ELSE x.v
IsSeqT(x) == x.t \in {"str", "list", "tuple"}

PyTruthy(x) ==
  CASE x.t = "int"  -> x.v # 0
    [] x.t = "bool" -> x.v
    [] x.t \in {"str", "list", "tuple", "dict"} -> Len(x.v) > 0
    [] x.t = "none" -> FALSE
    [] x.t = "obj"  -> TRUE

RECURSIVE PyEq(_, _)
PyEq(x, y) ==
  CASE IsNum(x) /\ IsNum(y) -> NumOf(x) = NumOf(y)
    [] x.t = "none" /\ y.t = "none" -> TRUE
    [] x.t = "str" /\ y.t = "str" -> x.v = y.v
    [] x.t = "obj" /\ y.t = "obj" -> x.v = y.v
    [] x.t \in {"list", "tuple"} /\ x.t = y.t ->
         /\ Len(x.v) = Len(y.v)
         /\ \A i \in 1..Len(x.v) : PyEq(x.v[i], y.v[i])
    [] OTHER -> FALSE

(* identity-or-equality as used to compare logged values with expected   *)
(* ones: same tag, same payload (bool and int are distinct here)         *)
RECURSIVE SameVal(_, _)
SameVal(x, y) ==
  /\ x.t = y.t
  /\ CASE x.t \in {"list", "tuple"} ->
            /\ Len(x.v) = Len(y.v)
            /\ \A i \in 1..Len(x.v) : SameVal(x.v[i], y.v[i])
       [] x.t = "dict" ->
            /\ Len(x.v) = Len(y.v)
            /\ \A i \in 1..Len(x.v) : SameVal(x.v[i][1], y.v[i][1]) /\ SameVal(x.v[i][2], y.v[i][2])
       [] OTHER -> x.v = y.v

RECURSIVE SeqLt(_, _)
SeqLt(a, b) ==   \* lexicographic order on sequences of naturals
  IF a = <<>> THEN b # <<>>
  ELSE IF b = <<>> THEN FALSE
  ELSE IF Head(a) < Head(b) THEN TRUE
  ELSE IF Head(a) > Head(b) THEN FALSE
  ELSE SeqLt(Tail(a), Tail(b))

(* defined only within one sort: numbers, or strings (sort checking of    *)
(* programs guarantees this)                                             *)
PyLt(x, y) == IF x.t = "str" THEN SeqLt(x.v, y.v) ELSE NumOf(x) < NumOf(y)

Cmp(op, x, y) ==
  CASE op = "eq" -> PyEq(x, y)
    [] op = "ne" -> ~PyEq(x, y)
    [] op = "lt" -> PyLt(x, y)
    [] op = "le" -> PyLt(x, y) \/ PyEq(x, y)
    [] op = "gt" -> PyLt(y, x)
    [] op = "ge" -> PyLt(y, x) \/ PyEq(x, y)

IsPrefixSeq(p, s) == Len(p) <= Len(s) /\ SubSeq(s, 1, Len(p)) = p
IsSubstr(p, s) == \E k \in 0..(Len(s) - Len(p)) : SubSeq(s, k + 1, k + Len(p)) = p

PyIn(item, cont) ==
  CASE cont.t \in {"list", "tuple"} -> \E i \in 1..Len(cont.v) : PyEq(item, cont.v[i])
    [] cont.t = "str" -> item.t = "str" /\ IsSubstr(item.v, cont.v)
    [] cont.t = "dict" -> \E i \in 1..Len(cont.v) : PyEq(item, cont.v[i][1])

(* elements of an iterable value; a non-iterable counts as one element   *)
(* (strings are treated as scalars by the library's is_iterable? no: a   *)
(* str IS iterable in Python; the harness never flattens strings)        *)
Elems(x) == IF x.t \in {"list", "tuple"} THEN x.v ELSE <<x>>

DictGet(d, k) == LET i == CHOOSE j \in 1..Len(d.v) : PyEq(d.v[j][1], k) IN d.v[i][2]

\* x[key] for list / tuple (0-based int key) and dict
GetItem(x, key) == IF x.t = "dict" THEN DictGet(x, key) ELSE x.v[key.v + 1]
=========================================================================
