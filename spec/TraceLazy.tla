------------------------------ MODULE TraceLazy ------------------------------
(* Validation of recorded lazy-domain histories.  One JSON line per case:   *)
(*   [id, W, q, evs]; q is a single-variable query whose domain was handed  *)
(*   to the library as a one-shot logging iterator; after every event the   *)
(*   harness logs the pull log (heap indices in pull order), the number of  *)
(*   user-predicate calls so far and what the call returned:                *)
(*   new [pulls, calls] | next [res, pulls] | close [pulls] | drain [rows, pulls] *)
(*   res = heap index of the delivered object, 0 = StopIteration            *)
EXTENDS LazyOps, EQLSem, Json, IOUtils
Traces == ndJsonDeserialize(IOEnv.TRACE_FILE)
VARIABLES tid, l, a
tvars == <<tid, l, a>>

Dom(t) == LET v == t.q.vars[1] IN SelectSeq(v.dom, LAMBDA o : IsInst(t.W, o, v.cls))
RawDom(t) == t.q.vars[1].dom
Qual(t) == {p \in 1..Len(RawDom(t)) : /\ IsInst(t.W, RawDom(t)[p], t.q.vars[1].cls)
                                       /\ Holds(t.q.cond, <<ObjV(RawDom(t)[p])>>, t.q, t.W)}

Clause(t, ev, s) ==
  IF ~PreA(ev.op, s) THEN "action-not-enabled"
  ELSE LET dom == RawDom(t)
           N == Len(dom)
           qual == Qual(t)
           n == ApplyA(ev.op, s, qual, N)
       IN IF ev.exc # "none" THEN "exception"
          ELSE IF Len(ev.pulls) > N \/ ev.pulls # SubSeq(dom, 1, Len(ev.pulls)) THEN "pulls.not-a-prefix"
          ELSE IF Len(ev.pulls) > n.pulled THEN "pulls.too-many"
          ELSE IF Len(ev.pulls) < n.pulled THEN "pulls.too-few"
          ELSE IF ev.op = "new" /\ ev.calls # 0 THEN "work-before-first-next"
          ELSE IF ev.op = "next" /\ ev.res # (IF ExpNext(s, qual) = 0 THEN 0 ELSE dom[ExpNext(s, qual)]) THEN "next.result"
          ELSE IF ev.op = "drain" /\ ev.rows # [j \in 1..Cardinality(ExpDrain(s, qual)) |->
                     dom[CHOOSE p \in ExpDrain(s, qual) : Cardinality({r \in ExpDrain(s, qual) : r <= p}) = j]]
               THEN "drain.rows"
          ELSE "ok"

Init == tid = 1 /\ l = 1 /\ a = InitA /\ TLCSet(1, {}) /\ TLCSet(2, 0)
Step == /\ tid <= Len(Traces)
        /\ IF l > Len(Traces[tid].evs)
           THEN /\ TLCSet(2, tid) /\ tid' = tid + 1 /\ l' = 1 /\ a' = InitA
           ELSE LET t == Traces[tid]
                    ev == t.evs[l]
                    c == Clause(t, ev, a)
                IN IF c = "ok"
                   THEN tid' = tid /\ l' = l + 1 /\ a' = ApplyA(ev.op, a, Qual(t), Len(RawDom(t)))
                   ELSE /\ TLCSet(1, TLCGet(1) \cup {[id |-> t.id, at |-> l, clause |-> c]})
                        /\ TLCSet(2, tid) /\ tid' = tid + 1 /\ l' = 1 /\ a' = InitA
Spec == Init /\ [][Step]_tvars
Post == /\ PrintT(<<"CHECKED", TLCGet(2)>>)
        /\ \A f \in TLCGet(1) : PrintT(<<"REJECT", f.id, f.at, f.clause>>)
        /\ TLCGet(2) = Len(Traces)
=============================================================================
