"""Thin wrapper around TLC: model checking runs, behaviour export, batch trace
validation.  Exit status of the machinery is kept apart from verdicts."""
from __future__ import annotations

import json
import os
import re
import subprocess
import time
from concurrent.futures import ThreadPoolExecutor

SPEC = os.path.join(os.path.dirname(os.path.dirname(os.path.abspath(__file__))), "spec")
JAR = "/opt/veriftools/tla/tla2tools.jar:/opt/veriftools/tla/CommunityModules-deps.jar"


class MachineryError(Exception):
    pass


def write_cfg(path, spec="Spec", constants=None, invariants=(), properties=(), constraint=None, view=None,
              postcondition=None, deadlock=False, init=None, next_=None):
    lines = []
    if init:
        lines += [f"INIT {init}", f"NEXT {next_}"]
    else:
        lines.append(f"SPECIFICATION {spec}")
    if constants:
        lines.append("CONSTANTS")
        for k, v in constants.items():
            if isinstance(v, bool):
                v = "TRUE" if v else "FALSE"
            elif isinstance(v, str) and not v.startswith(("<-", "{", "<<")):
                v = json.dumps(v)
            lines.append(f"  {k} = {v}" if not str(v).startswith("<-") else f"  {k} {v}")
    for inv in invariants:
        lines.append(f"INVARIANT {inv}")
    for p in properties:
        lines.append(f"PROPERTY {p}")
    if constraint:
        lines.append(f"CONSTRAINT {constraint}")
    if view:
        lines.append(f"VIEW {view}")
    if postcondition:
        lines.append(f"POSTCONDITION {postcondition}")
    lines.append(f"CHECK_DEADLOCK {'TRUE' if deadlock else 'FALSE'}")
    with open(path, "w") as f:
        f.write("\n".join(lines) + "\n")
    return path


def run(module, cfg, scratch, workers=16, extra=(), env=None, timeout=3600, tag=None, xmx="8g"):
    """Run TLC on spec/<module>.tla with the given cfg file. Returns dict with
    out, states, distinct, seconds, ok, violated (name of violated invariant)."""
    tag = tag or f"{module}-{os.path.basename(cfg)}-{time.time_ns()}"
    meta = os.path.join(scratch, "meta-" + tag)
    # -Xss: the mechanism models fold over result sequences with recursive operators; TLC evaluates them on the Java stack
    cmd = ["java", "-XX:+UseParallelGC", "-Xmx" + xmx, "-Xss64m", "-cp", JAR, "tlc2.TLC", "-workers", str(workers),
           "-metadir", meta, "-noGenerateSpecTE", "-config", cfg, *extra, os.path.join(SPEC, module + ".tla")]
    e = dict(os.environ)
    if env:
        e.update(env)
    t0 = time.time()
    try:
        p = subprocess.run(cmd, cwd=SPEC, env=e, capture_output=True, text=True, timeout=timeout)
    except subprocess.TimeoutExpired as ex:
        raise MachineryError(f"TLC timed out after {timeout}s: {module} {cfg}") from ex
    out = p.stdout + p.stderr
    res = {"out": out, "seconds": time.time() - t0, "rc": p.returncode, "cmd": " ".join(cmd)}
    m = re.search(r"(\d+) states generated, (\d+) distinct states found", out)
    res["states"] = int(m.group(2)) if m else 0
    res["transitions"] = int(m.group(1)) if m else 0
    m = re.search(r"Invariant (\w+) is violated", out)
    res["violated"] = m.group(1) if m else None
    if not m:
        m = re.search(r"Action property (\w+) is violated", out)
        res["violated"] = m.group(1) if m else None
    res["ok"] = "Model checking completed. No error has been found." in out or \
                ("Finished in" in out and "Error:" not in out and res["violated"] is None)
    if res["violated"] is None and not res["ok"]:
        k = out.find("Error:")
        raise MachineryError(f"TLC failed ({module}, {cfg}):\n" + (out[max(0, k - 200):k + 2500] if k >= 0 else out[-3000:]))
    return res


_PRINT = re.compile(r'^<<"(\w+)", (.*)>>$')


def printed(out, key):
    """Values TLC printed with PrintT(<<key, ToJson(x)>>), decoded."""
    res = []
    for line in out.splitlines():
        m = _PRINT.match(line)
        if m and m.group(1) == key:
            res.append(json.loads(json.loads(m.group(2))))
    return res


def validate(module, traces, scratch, shards=16, timeout=3600, constants=None):
    """Batch trace validation: split `traces` (list of dicts with unique "id")
    into shards, run spec/<module>.tla (-workers 1 each, in parallel) with
    TRACE_FILE set, collect REJECT lines.  Returns (rejections, checked)."""
    if not traces:
        return [], 0
    shards = max(1, min(shards, (len(traces) + 49) // 50))
    files = []
    for s in range(shards):
        part = traces[s::shards]
        path = os.path.join(scratch, f"trace-{module}-{time.time_ns()}-{s}.ndjson")
        with open(path, "w") as f:
            for t in part:
                f.write(json.dumps(t) + "\n")
        files.append((path, len(part)))
    cfg = os.path.join(scratch, f"{module}-{time.time_ns()}.cfg")
    write_cfg(cfg, postcondition="Post", constants=constants)

    def one(arg):
        path, n = arg
        r = run(module, cfg, scratch, workers=1, env={"TRACE_FILE": path}, timeout=timeout,
                tag=os.path.basename(path), xmx="1500m")
        m = re.search(r'<<"CHECKED", (\d+)>>', r["out"])
        if not m or int(m.group(1)) != n or r["violated"]:
            raise MachineryError(f"trace validation incomplete for {path}: checked "
                                 f"{m.group(1) if m else '?'} of {n}\n" + r["out"][-3000:])
        rej = []
        for mm in re.finditer(r'<<"REJECT", (\d+), (\d+), "([^"]+)">>', r["out"]):
            rej.append({"id": int(mm.group(1)), "at": int(mm.group(2)), "clause": mm.group(3)})
        return rej, n

    with ThreadPoolExecutor(max_workers=shards) as ex:
        results = list(ex.map(one, files))
    for path, _ in files:
        os.unlink(path)
    return [r for rs, _ in results for r in rs], sum(n for _, n in results)
