"""Per-property check plans.  Each plan: (1) TLC model-checks / explores the
specification, (2) TLC exports behaviours (inputs), (3) the harness replays
them on the library and records, (4) TLC validates the recorded traces."""
from __future__ import annotations

import copy
import random

from . import datasets
from .pipeline import Run, load_findings
from .syntax import normalize, digest, count_nodes

QUERY_ASSUMPTIONS = [
    "well-sorted, exception-free programs over interned values (ints -3..3, literal strings); eq=False dataclasses",
    "EQLValues/EQLSem (TLA+) is the oracle; Python computes no expected value",
    "one thread, one contextvars context; each case starts from a reset library state",
]


def mk_query(prog, doms, classes=None, quant="an", **kw):
    nv = len(doms)
    q = {"vars": [{"cls": (classes or ["A"] * nv)[i], "dom": doms[i]} for i in range(nv)],
         "flats": prog.get("flats", []), "bound": prog.get("bound", []), "desc": prog["desc"], "quant": quant,
         "sel": prog["sel"], "cond": prog["cond"]}
    q.update(kw)
    q = normalize(q, nv)
    used = q.pop("_used")
    q["vars"] = [q["vars"][i - 1] for i in used]
    return q


def drain_ev(qi=1, eqto=0):
    return {"op": "drain", "qi": qi, "eqto": eqto}


def domain_size(q):
    n = 1
    for v in q["vars"]:
        n *= len(v["dom"])
    return n


class QueryCheck:
    """Shared flow of the query-family properties."""

    def __init__(self, run: Run):
        self.run = run
        self.rng = random.Random(run.seed)
        self.cases = []
        self.next_id = 1

    def add(self, W, qs, evs, tag=None, **kw):
        c = {"id": self.next_id, "family": "query", "W": W, "qs": qs, "evs": evs}
        c.update(kw)
        if tag is not None:
            c["_tag"] = tag
        self.next_id += 1
        self.cases.append(c)
        return c

    def execute(self, nontrivial, classify=None, module="TraceQuery"):
        """Replay all cases, validate, classify.  nontrivial(trace) -> key or None."""
        run = self.run
        by_id = {c["id"]: c for c in self.cases}
        CH = 20000
        for k in range(0, len(self.cases), CH):
            chunk = self.cases[k:k + CH]
            traces = run.replay(chunk)
            for t in traces:
                if "build_exc" in t:      # construction failed: every event is an exception
                    t["evs"] = [dict(ev, exc="build:" + t["build_exc"][:60], rows=[], out="build", row=[], insts=[])
                                if ev["op"] != "cfg" else ev for ev in by_id[t["id"]]["evs"]]
            rej = run.validate(module, traces, strip=("build_exc", "build_tb", "family"))
            for t in traces:
                key = nontrivial(t)
                if key is not None and t["id"] not in rej:
                    run.nontrivial.add(key)
                if len(run.samples) < 3 and key is not None:
                    run.samples.append({"case": {k2: v for k2, v in by_id[t["id"]].items() if not k2.startswith("_")},
                                        "observed": t["evs"]})
            for tid, rs in rej.items():
                t = next(x for x in traces if x["id"] == tid)
                finding = classify(by_id[tid], t, rs) if classify else None
                if finding is not None:
                    run.known_finding(finding, f"case {tid}: " + rs[0]["clause"])
                else:
                    run.violation(by_id[tid], t, rs)
        self.cases = []


def _nontrivial_rows(t):
    """A case is non-trivial when some drained result is neither empty nor the
    whole product of the domains."""
    for ev in t["evs"]:
        if ev["op"] == "drain" and ev.get("exc") == "none":
            q = t["qs"][ev["qi"] - 1]
            if 0 < len(ev["rows"]) < domain_size(q):
                return digest([q["cond"], q["sel"]])
    return None


# ---------------------------------------------------------------------- C01
def check_C01(tier, seed):
    run = Run("C01", tier, seed)
    run.rule = ("programs: every condition tree TLC's builder machine reaches within the bound (BFS) plus random "
                "walks (-simulate); each replayed on a covering world and a random world with a permuted domain; "
                "non-trivial = result neither empty nor the whole domain; distinct by (condition, selection)")
    run.assumptions = QUERY_ASSUMPTIONS + ["domains list distinct objects (C01's stated domain)"]
    qc = QueryCheck(run)
    rng = qc.rng
    quick = tier == "quick"
    progs = run.export("GenQuery", "G1-bfs", "PROG", constants=dict(
        NV=1, LeafLimit=12 if quick else 45, MaxLeaves=2, MaxNot=1 if quick else 2, NeedNot=False),
        invariants=("Export", "WellFormed"))
    progs += run.export("GenQuery", "G1-sim", "PROG", constants=dict(
        NV=1, LeafLimit=45, MaxLeaves=4 if quick else 6, MaxNot=2, NeedNot=False),
        simulate=1500 if quick else 20000, depth=14 if quick else 22)
    cov = datasets.covering_world(9)
    for p in progs:
        dom = list(range(1, 10))
        rng.shuffle(dom)
        qc.add(cov, [mk_query(p, [dom])], [drain_ev()])
        if not quick or rng.random() < 0.5:
            W = datasets.random_world(rng, rng.randint(2, 6))
            dom = list(range(1, len(W["objs"]) + 1))
            rng.shuffle(dom)
            qc.add(W, [mk_query(p, [dom])], [drain_ev()])
    qc.execute(_nontrivial_rows)
    return run.finish()


CHECKS = {"C01": check_C01}
