"""Per-property check plans.  Each plan: (1) TLC model-checks / explores the
specification, (2) TLC exports behaviours (inputs), (3) the harness replays
them on the library and records, (4) TLC validates the recorded traces."""
from __future__ import annotations

import copy
import itertools
import json
import random

from . import datasets
from .pipeline import Run, load_findings, CODE
from .syntax import normalize, digest, count_nodes

QUERY_ASSUMPTIONS = [
    "well-sorted, exception-free programs over interned values (ints -3..3, literal strings); eq=False dataclasses",
    "EQLValues/EQLSem (TLA+) is the oracle; Python computes no expected value",
    "one thread, one contextvars context; each case starts from a reset library state",
]


def mk_query(prog, doms, classes=None, quant="an", **kw):
    nv = len(doms)
    q = {"vars": [{"cls": (classes or ["A"] * nv)[i], "dom": doms[i]} for i in range(nv)],
         "flats": prog.get("flats", []), "bound": prog.get("bound", []), "desc": prog["desc"], "quant": quant,
         "sel": prog["sel"], "cond": prog["cond"]}
    if prog.get("boundflats"):
        q["boundflats"] = prog["boundflats"]
    q.update(kw)
    q = normalize(q, nv)
    used = q.pop("_used")
    q["vars"] = [q["vars"][i - 1] for i in used]
    q["varkeys"] = used          # identity of each variable in the declaration list (for sharing between queries)
    if "declare" in kw and kw["declare"] in ("random", "given"):
        order = list(range(1, len(q["vars"]) + 1))
        if kw["declare"] == "random":
            _DECL_RNG.shuffle(order)
        q["declare"] = order
    return q


_DECL_RNG = random.Random(12345)


def _sample(rng, progs, n):
    """A random sample of n programs that always contains the queries without any condition (few, and a shape of
    their own)."""
    bare = [p for p in progs if p.get("cond", {}).get("k") == "true"]
    rest = [p for p in progs if p.get("cond", {}).get("k") != "true"]
    return bare + rng.sample(rest, max(0, min(len(rest), n - len(bare))))


def drain_ev(qi=1, eqto=0, eqoff=0, eqbag=0):
    return {"op": "drain", "qi": qi, "eqto": eqto, "eqoff": eqoff, "eqbag": eqbag}


def domain_size(q):
    n = 1
    for v in q["vars"]:
        n *= len(v["dom"])
    return n


def cache_index_findings(run, cases, traces=None):
    """Which of the rejected query-family executions are instances of the open finding F2 (wrong rows with caching
    enabled, caused by the incomplete descent of IndexedCache.retrieve, F1)?  Call-site scoping, decided by TLC:
    (a) the same case with caching disabled throughout is accepted by TraceQuery, and
    (b) re-executed with every operator-cache insert/retrieve traced, at least one retrieval of that very execution
        is rejected by the reference store (TraceIndex, Judge = ref) with clause retrieve.missing, and no retrieval
        or check is rejected in any other way, and
    (c) where stage B3 of the mechanism model applies (events flagged b3): the model with the code's descent predicts
        the observed rows exactly, and the same model with the complete descent yields the denotation's rows - the
        wrong answer is the consequence of the descent and of nothing else.
    Returns (finding, set of covered case ids)."""
    f = next((x for x in load_findings() if x["id"] == "F2"), None)
    cases = [c for c in cases if c.get("family", "query") == "query"]
    if f is None or not cases:
        return f, set()
    offs = []
    for c in cases:
        off = copy.deepcopy(c)
        off["evs"] = [{"op": "cfg", "caching": False}] + \
                     [dict(e, caching=False) if e["op"] == "cfg" else
                      dict(e, b3=False, **{k: e[k] + 1 for k in ("eqto", "eqbag", "eqinst") if e.get(k, 0) > 0}) for e in off["evs"]]
        offs.append(off)
    n0 = run.cases
    t_off = run.replay(offs)
    ok_off = {t["id"] for t in t_off if "build_exc" not in t} - \
        set(run.validate("TraceQuery", t_off, strip=("build_exc", "build_tb", "family"), count=False))
    cand = [dict(copy.deepcopy(c), _trace_index=True) for c in cases if c["id"] in ok_off]
    t_tr = run.replay(cand) if cand else []
    run.cases = n0                      # re-executions for classification are not counted as cases
    groups, owner = {}, {}
    for t in t_tr:
        for it in t.get("index_traces", []):
            it["id"] = len(owner) + 1
            owner[it["id"]] = t["id"]
            groups.setdefault((it["nkeys"], it["nvals"]), []).append(it)
    missing, other = set(), set()
    for (nk, nv), ts in groups.items():
        rej = run.validate_with("TraceIndex", ts, dict(NKeys=nk, NVals=nv, PreferWildcard=False, Judge="ref"), count=False)
        for tid, rs in rej.items():
            (missing if rs[0]["clause"] == "retrieve.missing" else other).add(owner[tid])
    covered = missing - other
    b3 = [t for t in (traces or []) if t["id"] in covered and any(e.get("b3") for e in t["evs"])]
    if b3:
        drifted = {d["id"] for d in run.drift if d["clause"] == "drift.order-b3"}
        slim = [{k: v for k, v in t.items() if k not in ("build_exc", "build_tb")} for t in b3]
        rej = run.validate_with("TraceQuery", slim, dict(CODE, PreferWildcardB3=False, B3Judge="sem"),
                                count=False)
        not_descent = {tid for tid, rs in rej.items() if any(r["clause"] == "drift.b3-wrong-with-this-descent" for r in rs)}
        covered -= (drifted | not_descent) & {t["id"] for t in b3}
        run.extra["f2_cases_explained_by_stage_b3"] = run.extra.get("f2_cases_explained_by_stage_b3", 0) + \
            len({t["id"] for t in b3} - drifted - not_descent)
    return f, covered


def _structural_finding(prop, case, rejections):
    """Open findings that are identified by the shape of the program (scope) and the clauses that fail."""
    for f in load_findings():
        if f.get("scope") == "rule tree with a next_rule branch" and prop in [f["property"]] + f.get("manifests_in", []):
            if all('"edge": "next"' in json.dumps(q.get("tree", {})) for q in case["qs"]) and \
                    all(r["clause"] in f["clauses"] for r in rejections):
                return f
    return None


class QueryCheck:
    """Shared flow of the query-family properties."""

    def __init__(self, run: Run):
        self.run = run
        self.rng = random.Random(run.seed)
        self.cases = []
        self.next_id = 1

    def add(self, W, qs, evs, tag=None, **kw):
        c = {"id": self.next_id, "family": "query", "W": W, "qs": qs, "evs": evs}
        c.update(kw)
        if tag is not None:
            c["_tag"] = tag
        self.next_id += 1
        # kept as compact text until its chunk is executed: hundreds of thousands of cases as nested dicts need several
        # gigabytes (the thorough tier of C01 was killed at ~370 000 cases)
        self.cases.append(json.dumps(c, separators=(",", ":")))

    def execute(self, nontrivial, classify=None, module="TraceQuery"):
        """Replay all cases, validate, classify.  nontrivial(trace) -> key or None."""
        run = self.run
        CH = 8000
        for k in range(0, len(self.cases), CH):
            chunk = [json.loads(x) for x in self.cases[k:k + CH]]
            by_id = {c["id"]: c for c in chunk}
            traces = run.replay(chunk)
            for t in traces:
                if "build_exc" in t:      # construction failed: every event is an exception
                    t["evs"] = [dict(ev, exc="build:" + t["build_exc"][:60], rows=[], out="build", row=[], insts=[], symcalls=0)
                                if ev["op"] not in ("cfg", "build") else ev for ev in by_id[t["id"]]["evs"]]
            rej = run.validate(module, traces, strip=("build_exc", "build_tb", "family"))
            for t in traces:
                key = nontrivial(t)
                if key is not None and t["id"] not in rej:
                    run.nontrivial.add(key)
                if len(run.samples) < 3 and key is not None:
                    run.samples.append({"case": {k2: v for k2, v in by_id[t["id"]].items() if not k2.startswith("_")},
                                        "observed": t["evs"]})
            tr_by_id = {t["id"]: t for t in traces}
            import os as _os
            if _os.environ.get("VERIF_DEBUG_DRIFT") and run.drift:
                json.dump([{"drift": d, "trace": tr_by_id.get(d["id"])} for d in run.drift[:20]],
                          open("/tmp/drift.json", "w"))
            f2, covered = (None, set()) if classify else cache_index_findings(run, [by_id[tid] for tid in rej], traces)
            for tid, rs in rej.items():
                t = tr_by_id[tid]
                finding = classify(by_id[tid], t, rs) if classify else (f2 if tid in covered else None)
                if finding is None:
                    finding = _structural_finding(run.prop, by_id[tid], rs)
                if finding is not None:
                    run.known_finding(finding, f"case {tid}: " + rs[0]["clause"])
                    run.extra["known_finding_cases"] = run.extra.get("known_finding_cases", 0) + 1
                elif by_id[tid].get("_observe"):
                    run.observation(by_id[tid]["_observe"], by_id[tid], t, rs)
                else:
                    run.violation(by_id[tid], t, rs)
        self.cases = []


def _nontrivial_rows(t):
    """A case is non-trivial when some drained result is neither empty nor the
    whole product of the domains."""
    for ev in t["evs"]:
        if ev["op"] == "drain" and ev.get("exc") == "none":
            q = t["qs"][ev["qi"] - 1]
            if 0 < len(ev["rows"]) < domain_size(q):
                return digest([q["cond"], q["sel"]])
    return None


# ---------------------------------------------------------------------- C01
def check_C01(tier, seed):
    run = Run("C01", tier, seed)
    run.rule = ("programs: every condition tree TLC's builder machine reaches within the bound (BFS) plus random "
                "walks (-simulate); each replayed on a covering world and a random world with a permuted domain; "
                "non-trivial = result neither empty nor the whole domain; distinct by (condition, selection)")
    run.assumptions = QUERY_ASSUMPTIONS + ["domains list distinct objects (C01's stated domain); in a part of the worlds distinct objects "
                                           "compare equal (value-based __eq__), conditions there compare values, not objects"]
    qc = QueryCheck(run)
    rng = qc.rng
    quick = tier == "quick"
    # Layer B against Layer A: the mechanism model yields exactly the filter of the domain, in order, each once
    run.mc("MechCheck", "mech-exact", constants=dict(G="G12", NV=1, LeafLimit=24 if quick else 49, MaxLeaves=2,
                                                      MaxNot=1 if quick else 2, NeedNot=False, **CODE),
           invariants=("MechEqualsSem",))
    progs = run.export("GenQuery", "G1-bfs", "PROG", constants=dict(
        G="G12", NV=1, LeafLimit=12 if quick else 49, MaxLeaves=2, MaxNot=1 if quick else 2, NeedNot=False),
        invariants=("Export", "WellFormed"))
    progs += run.export("GenQuery", "G1-sim", "PROG", constants=dict(
        G="G12", NV=1, LeafLimit=49, MaxLeaves=4 if quick else 6, MaxNot=2, NeedNot=False),
        simulate=1500 if quick else 20000, depth=14 if quick else 22)
    progs += run.export("GenQuery", "G1-leaves", "PROG", constants=dict(G="G12", NV=1, LeafLimit=70, MaxLeaves=1, MaxNot=1,
                                                                        NeedNot=False), count=False)
    # conditions that mention no variable (a constant membership test), alone and combined with ordinary ones
    konst = run.export("GenQuery", "G1k", "PROG", constants=dict(G="G1k", NV=1, LeafLimit=11, MaxLeaves=2, MaxNot=1, NeedNot=False),
                       count=False)
    for p in (rng.sample(konst, min(len(konst), 400)) if quick else konst):
        W = datasets.random_world(rng, rng.randint(2, 6))
        dom = list(range(1, len(W["objs"]) + 1))
        rng.shuffle(dom)
        qc.add(W, [mk_query(p, [dom])], [drain_ev(), drain_ev(1, eqto=1)], tag="constant-condition")
    cov = datasets.covering_world(9)
    for p in progs:
        dom = list(range(1, 10))
        rng.shuffle(dom)
        qc.add(cov, [mk_query(p, [dom])], [drain_ev()], dump_graph=True)
        if not quick or rng.random() < 0.5:
            W = datasets.random_world(rng, rng.randint(2, 6))
            dom = list(range(1, len(W["objs"]) + 1))
            rng.shuffle(dom)
            qc.add(W, [mk_query(p, [dom])], [drain_ev()], dump_graph=True)
        if rng.random() < (0.4 if quick else 0.25):
            # distinct objects that compare equal to one another are distinct all the same (each is judged, and
            # returned, on its own)
            W = datasets.value_equal_world(rng, rng.randint(3, 6))
            dom = list(range(1, len(W["objs"]) + 1))
            rng.shuffle(dom)
            qc.add(W, [mk_query(p, [dom])], [drain_ev(), drain_ev(1, eqto=1)])
    qc.execute(_nontrivial_rows)
    return run.finish()



def _programs(run, nv, quick, need_not=False, tag="", leaf_quick=None, leaf_full=None, sim_quick=1200,
              sim_full=15000, maxleaves_bfs=2):
    """Programs for grammar G1 (nv = 1) or G2 (nv >= 2): exhaustive BFS over the
    bounded builder machine plus seeded random walks to larger trees."""
    full = 49 if nv == 1 else (34 if nv == 2 else 43)
    lq = leaf_quick or (12 if nv == 1 else 10)
    lf = leaf_full or full
    progs = run.export("GenQuery", f"G{nv}{tag}-bfs", "PROG", constants=dict(
        G="G12", NV=nv, LeafLimit=lq if quick else lf, MaxLeaves=maxleaves_bfs, MaxNot=1 if quick else 2, NeedNot=need_not),
        invariants=("Export", "WellFormed"))
    progs += run.export("GenQuery", f"G{nv}{tag}-sim", "PROG", constants=dict(
        G="G12", NV=nv, LeafLimit=full, MaxLeaves=4 if quick else 6, MaxNot=2, NeedNot=need_not),
        simulate=sim_quick if quick else sim_full, depth=14 if quick else 22)
    # every leaf of the full vocabulary at least alone, with and without not_ (less common API forms sit at its end)
    progs += run.export("GenQuery", f"G{nv}{tag}-leaves", "PROG", constants=dict(
        G="G12", NV=nv, LeafLimit=full + 20, MaxLeaves=1, MaxNot=1, NeedNot=need_not), count=False)
    return progs


def _compares_objects(t):
    """Does the program compare objects with one another (==, in_, p_eq on variables / ref / refs)?  The denotation
    compares objects by identity, so such programs are not run on worlds whose objects have value equality."""
    if isinstance(t, list):
        return any(_compares_objects(x) for x in t)
    if not isinstance(t, dict):
        return False
    if t.get("k") == "attr" and t.get("a") in ("ref", "refs"):
        return True
    if t.get("k") == "pred" and t.get("p") == "p_eq":
        return True
    if t.get("k") in ("cmp", "in") and any(isinstance(t.get(x), dict) and t[x].get("k") in ("var", "sub") for x in ("l", "r")):
        return True
    return any(_compares_objects(v) for v in t.values())


def _world_and_doms(rng, nv, quick, cover_p=0.3, value_equal_p=0.0, prog=None):
    """A world plus one domain per variable (sometimes shared: self-join).  value_equal_p: share of worlds in which
    several distinct objects compare equal to one another (each is a solution of its own all the same) - only for
    programs that do not compare objects with one another."""
    if value_equal_p and rng.random() < value_equal_p and prog is not None and not _compares_objects(prog):
        W = datasets.value_equal_world(rng, rng.randint(3, 6))
    elif rng.random() < cover_p:
        W = datasets.covering_world(9)
    else:
        W = datasets.random_world(rng, rng.randint(2, 6))
    doms = datasets.domains_for(rng, W, nv, shared=rng.random() < 0.3, maxdom=4 if nv <= 2 else 3)
    return W, doms


def _bare_condition_programs(run, quick, need_not=False):
    """Grammar G2t: two variables, bare attribute / method-call conditions on variable 2 (operands that do not echo the
    incoming bindings in the rows they yield) mixed with conditions on variable 1 alone and a join, each leaf at most
    once; negations at any position.  Quick: random walks; thorough: the whole BFS up to three leaves."""
    c = dict(G="G2t", NV=2, LeafLimit=6, MaxLeaves=3 if quick else 4, MaxNot=1 if quick else 2, NeedNot=need_not)
    if quick:
        return run.export("GenQuery", "G2t-sim", "PROG", constants=c, simulate=1500, depth=12, count=False)
    return run.export("GenQuery", "G2t-bfs", "PROG", constants=dict(c, MaxLeaves=3, MaxNot=1), invariants=("Export", "WellFormed")) + \
        run.export("GenQuery", "G2t-sim", "PROG", constants=c, simulate=20000, depth=14, count=False)


def _partial_binding_programs(run, rng, quick, qc, add):
    """Grammar G3w: and_/or_ trees of distinct leaves over the variable sets {1,2}, {1,3}, {1}, {1,3} (and, in the
    conjunctions of two disjunctions, {2,3}, {2}, {3} and {1,2} once more).  Returns the programs for the caller's ordinary worlds; the
    conjunctions of two disjunctions are handed to `add` on worlds over two int values with domains of up to four members
    as well: there an operator's cache receives results under a partial binding between results under full bindings
    (and results that are duplicates under one projection but not under a later one), and what a later lookup is served
    depends on the enumeration order of the data."""
    part = run.export("GenQuery", "G3w-bfs", "PROG", constants=dict(G="G3w", NV=3, LeafLimit=4, MaxLeaves=4, MaxNot=0,
                                                                  NeedNot=False), invariants=("Export", "WellFormed"))
    shaped = [p for p in part if p["cond"]["k"] == "and" and p["cond"]["l"]["k"] == "or" and p["cond"]["r"]["k"] == "or"]
    # the same shape over the eight-leaf vocabulary: every ordered choice of four distinct leaves (grammar G3ws, which C05
    # model-checks as a whole)
    single = run.export("GenQuery", "G3w-leaves", "PROG", constants=dict(G="G3w", NV=3, LeafLimit=8, MaxLeaves=1, MaxNot=0,
                                                                       NeedNot=False), count=False)
    leaves, heads = [], []
    for p in single:
        if p["cond"] not in leaves:
            leaves.append(p["cond"])
        h = {k: v for k, v in p.items() if k != "cond"}
        if h not in heads:
            heads.append(h)
    wide = []
    for a, b, c, d in itertools.permutations(leaves, 4):
        if all(x in leaves[:4] for x in (a, b, c, d)):
            continue                              # already in `shaped`
        cond = {"k": "and", "l": {"k": "or", "l": a, "r": b, "form": "fn"}, "r": {"k": "or", "l": c, "r": d, "form": "fn"}, "form": "fn"}
        wide += [dict(h, cond=cond) for h in heads]
    # the counterexamples TLC derived from the design (MechCheck on G3w with a deviation switch set to the code before a
    # repair), on the reference world and the domain choices of MechCheck: random data meets them about once in 4 000
    # cases, so they are replayed as they are - (leaves of the two disjunctions, selection, why)
    witnesses = [((0, 1, 2, 3), 3, "a row twice: (x, y) in the conjunction's cache under y = value and under y = All"),
                 ((4, 1, 5, 2), 2, "a row lost: a right-branch result dropped as a duplicate was not stored, the cache claimed to know all"),
                 ((5, 2, 3, 1), 2, "a row lost: the right disjunction dropped results that differ in a variable only one branch of the left one binds"),
                 ((6, 1, 5, 2), 1, "the same with a left disjunction over {3} / {1,3}, one variable selected"),
                 ((6, 1, 5, 7), 2, "the same, right disjunction over {2} / {1,2}")]
    ref_nm = ((0, 1), (1, 1), (2, 0), (1, 2))
    for (a, b, c, d), nsel, _why in witnesses:
        cond = {"k": "and", "l": {"k": "or", "l": leaves[a], "r": leaves[b], "form": "fn"},
                "r": {"k": "or", "l": leaves[c], "r": leaves[d], "form": "fn"}, "form": "fn"}
        head = next(h for h in heads if len(h["sel"]) == nsel)
        for d1, d2 in itertools.product(([1, 2, 3, 4], [3, 1], [2, 4], [4, 2]), ([3, 1], [2, 4, 1], [4], [1, 4], [3])):
            W = datasets.random_world(rng, 4)
            for o, (n_, m_) in zip(W["objs"], ref_nm):
                o["f"]["n"], o["f"]["m"] = datasets.iv(n_), datasets.iv(m_)
            for d3 in sorted({tuple(d2), (1, 4), (2, 4, 1), (2, 1)}):
                add((W, mk_query(dict(head, cond=cond), [d1, d2, list(d3)], declare="random")))
    if quick:
        wide = rng.sample(wide, 200)
    for p in shaped + wide:
        # a row returned twice shows only where every variable is selected
        reps = (30 if quick else 80) if len(p["sel"]) == 3 else (4 if quick else 12)
        for _ in range(reps if p in shaped else (4 if quick else 5)):
            W = datasets.random_world(rng, rng.randint(5, 8))
            ints = (0, 1) if rng.random() < 0.5 else (0, 1, 1, 2)
            for o in W["objs"]:
                o["f"]["n"], o["f"]["m"] = datasets.iv(rng.choice(ints)), datasets.iv(rng.choice(ints))
            n = len(W["objs"])
            if rng.random() < 0.5:
                doms = [rng.sample(range(1, n + 1), k) for k in (rng.randint(1, 2), rng.randint(3, 4), rng.randint(2, 3))]
            else:
                doms = [rng.sample(range(1, n + 1), rng.randint(1, 4)) for _ in range(3)]
            add((W, mk_query(p, doms, declare="random")))
    return rng.sample(part, min(len(part), 300)) if quick else part


# ---------------------------------------------------------------------- C02
def check_C02(tier, seed):
    run = Run("C02", tier, seed)
    run.rule = ("programs over 2 and 3 variables (joins, self-joins, chained attributes, conditions on a subset of the "
                "variables) x every selection list of the generator, BFS + random walks; each on random worlds and "
                "domains; rows compared as a multiset when all variables are selected, else as a set; selected "
                "attribute expressions compared by value; non-trivial = result neither empty nor the whole product")
    run.assumptions = QUERY_ASSUMPTIONS
    qc = QueryCheck(run)
    rng = qc.rng
    quick = tier == "quick"
    run.mc("MechCheck", "mech-rows", constants=dict(G="G12", NV=2, LeafLimit=12 if quick else 24, MaxLeaves=2,
                                                     MaxNot=1, NeedNot=False, **CODE),
           invariants=("MechEqualsSem", "Mech2EqualsSem"))
    # stage B2 on and_/or_ trees that mix the pairs of three variables (partial bindings, projected selections)
    run.mc("MechCheck", "mech-dedup", constants=dict(G="G3v", NV=3, LeafLimit=6, MaxLeaves=3 if quick else 4, MaxNot=0,
                                                      NeedNot=False, **CODE), invariants=("Mech2EqualsSem",))
    # stage B3 where a conjunction's cache holds one result under a partial and under a full binding (grammar G3w, see C05)
    run.mc("MechCheck", "mech-partial-bindings", constants=dict(G="G3w", NV=3, LeafLimit=4, MaxLeaves=3 if quick else 4, MaxNot=0,
                                                                 NeedNot=False, **CODE), invariants=("Mech3EqualsSem",))
    for nv in (2, 3):
        progs = _programs(run, nv, quick, sim_quick=800, sim_full=10000, leaf_quick=9 if nv == 2 else 8,
                          leaf_full=24 if nv == 2 else 16)
        if quick:
            progs = _sample(rng, progs, min(len(progs), 2500))
        elif len(progs) > 30000:
            progs = _sample(rng, progs, 30000)
            run.exhaustive = False
        if nv == 2:
            # every tree of three join conditions (and/or in both shapes): de-duplication across branches needs three leaves
            three = run.export("GenQuery", "G2-3leaves", "PROG", constants=dict(G="G12", NV=2, LeafLimit=6 if quick else 9, MaxLeaves=3,
                                                                                 MaxNot=0, NeedNot=False), invariants=("Export", "WellFormed"))
            three = [p for p in three if count_nodes(p["cond"], "cmp") + count_nodes(p["cond"], "in") == 3]
            three = rng.sample(three, min(len(three), 1500 if quick else 15000))
            progs += three + three          # each on two worlds: the interesting cases depend on the enumeration order of the data
            # a conjunction as the first operand of a disjunction with a projected selection: duplicate suppression of the
            # conjunction's false outputs decides whether the other branch is tried - several worlds each
            shaped = [p for p in three if p["cond"]["k"] == "or" and p["cond"]["l"]["k"] == "and"
                      and p["desc"] == "entity"]
            progs += shaped * 6
            # left-deep chains of four conditions: and_/or_ nested under and_/or_ (what an operator requires of its child
            # is passed down through every level)
            deep = run.export("GenQuery", "G2n-bfs", "PROG", constants=dict(G="G2n", NV=2, LeafLimit=4 if quick else 6, MaxLeaves=4,
                                                                          MaxNot=0, NeedNot=False), invariants=("Export", "WellFormed"))
            deep = [p for p in deep if count_nodes(p["cond"], "cmp") == 4]
            progs += rng.sample(deep, min(len(deep), 1500 if quick else 12000))
        if nv == 3:
            progs += _partial_binding_programs(run, rng, quick, qc, lambda q: qc.add(
                q[0], [q[1], copy.deepcopy(q[1])], [dict(drain_ev(1), b3=True), {"op": "cfg", "caching": False},
                                                    dict(drain_ev(2, eqto=1), b2=True)], dump_graph=True))
        for p in progs:
            for _ in range(1 if quick else 2):
                W, doms = _world_and_doms(rng, nv, quick, value_equal_p=0.15, prog=p)
                q = mk_query(p, doms, declare="random")
                # a second object of the same query evaluated with the result caches off: stage B2 of the mechanism
                # model predicts its exact row sequence (Layer B binding)
                qc.add(W, [q, copy.deepcopy(q)], [dict(drain_ev(1), b3=True), {"op": "cfg", "caching": False},
                                                  dict(drain_ev(2, eqto=1), b2=True)], dump_graph=True)
    qc.execute(_nontrivial_rows)
    return run.finish()


# ---------------------------------------------------------------------- C03
def _negate(c, form="fn"):
    return {"k": "not", "c": c, "form": form}


def _conjuncts(c):
    return _conjuncts(c["l"]) + _conjuncts(c["r"]) if c["k"] == "and" else [c]


def check_C03(tier, seed):
    run = Run("C03", tier, seed)
    run.rule = ("for every condition c of the generator (G1 and G2; c may already contain negations): three queries "
                "built from scratch - c, not_(c), not_(not_(c)) (also the ~ operator form) - each judged against "
                "the denotation, and not_(not_(c)) must return the rows of c; plus generated trees that contain "
                "negations at any depth; plus not_ applied to the descriptor itself, not_(entity(x, c1, ..)), re-evaluated "
                "with caching on and off; non-trivial = c and not_(c) both non-empty")
    run.assumptions = QUERY_ASSUMPTIONS
    qc = QueryCheck(run)
    rng = qc.rng
    quick = tier == "quick"
    # Layer B: Not() as a construction-time rewrite (De Morgan, flag toggling, operator table) preserves the complement
    run.mc("MechCheck", "mech-negation", constants=dict(G="G12", NV=1, LeafLimit=16 if quick else 30, MaxLeaves=2, MaxNot=2,
                                                         NeedNot=True, **CODE), invariants=("MechEqualsSem",))
    for nv in (1, 2):
        progs = _programs(run, nv, quick, sim_quick=600, sim_full=8000, leaf_full=30 if nv == 1 else 20)
        if quick:
            progs = _sample(rng, progs, min(len(progs), 1500))
        elif len(progs) > 50000:
            progs = _sample(rng, progs, 50000)
            run.exhaustive = False
        if nv == 2:
            progs += _bare_condition_programs(run, quick)
        for p in progs:
            if p["cond"]["k"] == "true":      # nothing to negate
                continue
            W, doms = _world_and_doms(rng, nv, quick, cover_p=0.5 if nv == 1 else 0.2, value_equal_p=0.15, prog=p)
            if nv == 1:
                doms = [list(range(1, len(W["objs"]) + 1))]
            form = "op" if rng.random() < 0.3 else "fn"
            p1 = dict(p, cond=_negate(p["cond"], form))
            p2 = dict(p, cond=_negate(_negate(p["cond"], form), form))
            qc.add(W, [mk_query(p, doms), mk_query(p1, doms), mk_query(p2, doms)],
                   [drain_ev(1), drain_ev(2), drain_ev(3, eqto=1)], dump_graph=True)
            if not quick or rng.random() < 0.5:
                # not_ applied to the descriptor - not_(entity(x, c1, c2)) - is the negation of its conditions taken
                # together; evaluated repeatedly under both cache configurations
                c = p["cond"]
                if c["k"] == "and" and rng.random() < 0.7:
                    c = {"k": "conj", "cs": _conjuncts(c)}
                qc.add(W, [mk_query(p1, doms), mk_query(dict(p, cond=c), doms, notdesc=True)],
                       [drain_ev(1), drain_ev(2, eqto=1), drain_ev(2, eqto=1), {"op": "cfg", "caching": False},
                        drain_ev(2, eqto=1), drain_ev(2, eqto=1)], tag="negated-descriptor")

    def nontrivial(t):
        evs = t["evs"]
        if all(e.get("exc") == "none" for e in evs) and evs[0]["rows"] and evs[1]["rows"]:
            return digest(t["qs"][0]["cond"])
        return None
    qc.execute(nontrivial)
    return run.finish()


# ---------------------------------------------------------------------- C06
def check_C06(tier, seed):
    run = Run("C06", tier, seed)
    run.rule = ("descriptions in which every variable is selected (entity over one variable, set_of over all), "
                "G1/G2 conditions, small domains so that 0, 1 and >=2 solutions all occur; per case: the(d).evaluate() "
                "twice and an(d) drained; TLC computes the expected outcome class and value; non-trivial = "
                "distinct (condition, outcome class) pairs, all three classes must occur")
    run.assumptions = QUERY_ASSUMPTIONS + ["every variable of the query is selected (C06's stated domain)"]
    qc = QueryCheck(run)
    rng = qc.rng
    quick = tier == "quick"
    outcomes = set()
    for nv in (1, 2):
        progs = _programs(run, nv, quick, sim_quick=500, sim_full=6000, leaf_full=30 if nv == 1 else 20)
        sels = [("entity", [{"k": "var", "i": 1}])] if nv == 1 else \
            [("set_of", [{"k": "var", "i": 1}, {"k": "var", "i": 2}]), ("set_of", [{"k": "var", "i": 2}, {"k": "var", "i": 1}])]
        if quick:
            progs = _sample(rng, progs, min(len(progs), 1500))
        elif len(progs) > 40000:
            progs = _sample(rng, progs, 40000)
            run.exhaustive = False
        for p in progs:
            desc, sel = rng.choice(sels)
            p = dict(p, desc=desc, sel=sel)
            W = datasets.random_world(rng, rng.randint(2, 5))
            doms = datasets.domains_for(rng, W, nv, maxdom=3 if nv == 1 else 2)
            q_the = mk_query(p, doms, quant="the")
            if len(q_the["vars"]) != nv:
                continue                      # a variable the condition does not mention: not all selected
            q_an = mk_query(p, doms)
            qc.add(W, [q_the, q_an], [{"op": "the", "qi": 1}, {"op": "the", "qi": 1}, drain_ev(2)])

    def nontrivial(t):
        ev = t["evs"][0]
        outcomes.add(ev.get("out"))
        return digest([t["qs"][0]["cond"], ev.get("out")])
    qc.execute(nontrivial)
    run.extra["outcome_classes_seen"] = sorted(o for o in outcomes if o)
    if not {"value", "NoSolutionFound", "MultipleSolutionFound"} <= outcomes:
        run.notes.append("not all three outcome classes occurred")
    return run.finish()


CHECKS = {"C01": check_C01, "C02": check_C02, "C03": check_C03, "C06": check_C06}


# ---------------------------------------------------------------------- C20
def check_C20(tier, seed):
    import itertools
    run = Run("C20", tier, seed)
    quick = tier == "quick"
    rng = random.Random(seed)
    run.rule = ("histories: every sequence of inserts (full and partial bindings, overwrites) and clears that TLC's "
                "state machine reaches within MaxOps, exported and replayed on the real IndexedCache, plus seeded random "
                "longer histories over more keys/values; after every operation every lookup (all partial bindings) is "
                "probed with check and retrieve; non-trivial = a history in which some retrieval returns >=1 entry and "
                "some lookup matches a partial (wildcard) entry")
    run.assumptions = ["coverage checks are probed only for lookups that bind >=1 key (C20's domain); inserts may bind no key",
                       "values and outputs are plain hashable Python values; every history is run over an alphabet of "
                       "ordinary values and over one whose first members are falsy (0, '', ...)",
                       "the reference store CacheIndexOps!RetrieveRef/CheckRef (TLA+) is the oracle"]
    # (1) design level: the index contract is satisfiable by the nested-dict mechanism when the descent follows every
    #     matching branch (PreferWildcard = FALSE): all histories, all lookups
    run.mc("CacheIndex", "complete-descent", constants=dict(NKeys=3, NVals=2, MaxOps=3 if quick else 4, PreferWildcard=False),
           invariants=("RetrieveOK", "CheckOK"), view="View")
    #     and the descent the code had before "fix: IndexedCache.retrieve ..." (wildcard branch preferred) breaks it
    run.mc("CacheIndex", "descent-before-the-repair", constants=dict(NKeys=3, NVals=2, MaxOps=3, PreferWildcard=True),
           invariants=("RetrieveOK",), view="View", expect_violation="RetrieveOK", count=False)
    # (2) behaviours: exported histories
    cases = []
    nk, nv, mo = 3, 2, 2 if quick else 3
    hists = run.export("CacheIndex", "export", "HIST", constants=dict(NKeys=nk, NVals=nv, MaxOps=mo, PreferWildcard=False),
                       invariants=("Export",), count=False)
    lookups = [list(l) for l in itertools.product(range(nv + 1), repeat=nk)]
    for h in hists:
        for alpha in ("int", "falsy"):          # the same history over ordinary values and over values that are falsy
            cases.append({"family": "index", "nkeys": nk, "nvals": nv, "lookups": lookups, "alpha": alpha,
                          "ops": [{"op": e["op"], "b": e["b"], "o": e["o"]} for e in h]})
    # (3) random histories beyond the bound
    for _ in range(300 if quick else 6000):
        nk2, nv2 = rng.choice([(3, 2), (4, 2), (3, 3), (4, 3)])
        ops = []
        for k in range(rng.randint(3, 8)):
            if rng.random() < 0.08 and ops:
                ops.append({"op": "clear", "b": [0] * nk2, "o": 0})
            else:
                b = [rng.choice([0] + list(range(1, nv2 + 1))) if rng.random() < 0.8 else 0 for _ in range(nk2)]
                if not any(b) and rng.random() < 0.7:       # the empty binding is inserted now and then
                    b[rng.randrange(nk2)] = 1
                ops.append({"op": "insert", "b": b, "o": rng.choice([1, 1, 2, k + 1])})     # 1 is stored as a falsy output
        allk = [list(l) for l in itertools.product(range(nv2 + 1), repeat=nk2)]
        cases.append({"family": "index", "nkeys": nk2, "nvals": nv2, "lookups": rng.sample(allk, min(len(allk), 12)),
                      "alpha": rng.choice(["int", "falsy"]), "ops": ops})
    for k, c in enumerate(cases):
        c["id"] = k + 1
    traces = run.replay(cases)
    by_id = {c["id"]: c for c in cases}
    findings = [f for f in load_findings() if f["property"] == "C20"]
    groups = {}
    for t in traces:
        groups.setdefault((t["nkeys"], t["nvals"]), []).append(t)
    for (nk2, nv2), ts in sorted(groups.items()):
        consts = dict(NKeys=nk2, NVals=nv2, PreferWildcard=False)
        rej = run.validate_with("TraceIndex", ts, dict(consts, Judge="ref"))
        # rejected by the reference: is it exactly the recorded deviation of the code's descent?
        dev = run.validate_with("TraceIndex", [t for t in ts if t["id"] in rej], dict(consts, Judge="dev"), count=False) \
            if rej else {}
        for t in ts:
            hit = any(e["op"] == "retrieve" and e["res"] for e in t["evs"])
            wild = any(e["op"] == "insert" and 0 in e["b"] for e in t["evs"])
            if hit and wild:
                run.nontrivial.add(digest([e for e in t["evs"] if e["op"] in ("insert", "clear")]))
            if t["id"] in rej:
                f = next((f for f in findings if f["deviation"] == "PreferWildcard"), None)
                if f is not None and t["id"] not in dev and rej[t["id"]][0]["clause"] in f["clauses"]:
                    run.known_finding(f, f"history {t['id']}: {rej[t['id']][0]['clause']} at event {rej[t['id']][0]['at']}")
                    run.extra["known_finding_histories"] = run.extra.get("known_finding_histories", 0) + 1
                else:
                    run.violation(by_id[t["id"]], t, rej[t["id"]], family="index")
        if len(run.samples) < 2 and ts:
            run.samples.append({"history": [e for e in ts[-1]["evs"] if e["op"] in ("insert", "clear")],
                                "probes": [e for e in ts[-1]["evs"] if e["op"] in ("check", "retrieve")][:6]})
    return run.finish()


CHECKS["C20"] = check_C20


# ---------------------------------------------------------------------- C08
def check_C08(tier, seed):
    run = Run("C08", tier, seed)
    quick = tier == "quick"
    run.rule = ("behaviours: every interleaving (to the depth bound) of entering/leaving symbolic_mode(), rule_mode(), "
                "symbolic_mode(q), rule_mode(q) and `with q:` blocks (normal and exceptional exit) with creating, advancing, "
                "closing, dropping and draining result iterators, exported by TLC and replayed; plus seeded random walks; after "
                "every step the observed mode, context-stack depth, @symbol construction, @predicate call and operator "
                "behaviour must equal what the open blocks prescribe; non-trivial = a behaviour in which an iterator is "
                "advanced or finalised at a different block depth than it was created at")
    run.assumptions = ["one thread, one contextvars context", "blocks are exited in LIFO order (with-statement discipline)"]
    base = dict(NIter=2, NRows=2, IterHoldsMode=False)
    # (1) the mechanism (context variable with saved previous values, per-step save/restore in iterators) keeps the
    #     mode equal to what the open blocks say, for every interleaving
    run.mc("Mode", "mech", constants=dict(base, MaxBlocks=3, MaxLen=8 if quick else 11),
           invariants=("Confined", "BlockFramesMatch", "OutsideIsNone"), constraint="Bound", view="View")
    # (2) behaviours
    behs = run.export("Mode", "export", "BEH", constants=dict(base, MaxBlocks=2, MaxLen=4 if quick else 5),
                      invariants=("Export",), constraint="Bound", count=False)
    behs += run.export("Mode", "walks", "BEH", constants=dict(base, NIter=2, MaxBlocks=3, MaxLen=14 if quick else 30),
                       invariants=("Export",), constraint="Bound", simulate=1500 if quick else 40000,
                       depth=15 if quick else 31, count=False)
    # each behaviour once with the plain comparison query and once (thorough: three times) with query shapes drawn per iterator
    rng = random.Random(seed)
    cases = [{"id": k + 1, "family": "mode", "niter": 2, "nrows": 2, "evs": b} for k, b in enumerate(behs)]
    for _ in range(1 if quick else 3):
        cases += [{"id": len(cases) + k + 1, "family": "mode", "niter": 2, "nrows": 2, "evs": b,
                   "shapes": [rng.randrange(10), rng.randrange(10)]} for k, b in enumerate(behs)]
    traces = run.replay(cases)
    rej = run.validate_with("TraceMode", traces, dict(base))
    by_id = {c["id"]: c for c in cases}
    for t in traces:
        depth, born = 0, {}
        for e in t["evs"]:
            if e["op"] == "enter":
                depth += 1
            elif e["op"] == "exit":
                depth -= 1
            elif e["op"] == "new":
                born[e["i"]] = depth
            elif e["op"] in ("next", "close", "drop", "drain") and born.get(e["i"]) != depth and t["id"] not in rej:
                run.nontrivial.add(digest([[x["op"], x["kind"], x["how"], x["i"]] for x in t["evs"]]))
                break
        if t["id"] in rej:
            run.violation(by_id[t["id"]], t, rej[t["id"]], family="mode")
    run.samples = [{"behaviour": [[x["op"], x["kind"], x["how"], x["i"]] for x in t["evs"]],
                    "observed": [[x["mode"], x["depth"], x["sym"], x["pred"], x["oper"], x["res"]] for x in t["evs"]]}
                   for t in traces[:2]]
    return run.finish()


CHECKS["C08"] = check_C08


# ---------------------------------------------------------------------- C19
def _has_falsy(W, q):
    for v in q["vars"]:
        for o in v["dom"]:
            f = W["objs"][o - 1]["f"]
            if any((x["t"] == "int" and x["v"] == 0) or (x["t"] in ("str", "list") and not x["v"]) or x["t"] == "none"
                   for x in f.values()):
                return True
    return False


def check_C19(tier, seed):
    from . import shift
    run = Run("C19", tier, seed)
    quick = tier == "quick"
    run.rule = ("G1/G2 programs (operands of comparisons and membership tests, selected attribute expressions, predicate "
                "arguments), flatten programs (elements), rule heads (constructor arguments) and predicate-form terms (field "
                "constraints) on worlds whose values are mostly the falsy member of their sort (0, '', [], None), judged "
                "against the denotation; plus a metamorphic twin: the same program and world with every value shifted away "
                "from falsy (comparison outcomes preserved) must return the same rows by object index; non-trivial = "
                "domain contains falsy values and the result is neither empty nor everything")
    run.assumptions = QUERY_ASSUMPTIONS + ["truthiness-dependent leaves (an expression in condition position, p_pos, is_small) "
                                           "are excluded from the shifted twin, not from the denotation check"]
    qc = QueryCheck(run)
    rng = qc.rng
    twins = 0
    for nv in (1, 2):
        progs = _programs(run, nv, quick, sim_quick=600, sim_full=8000, leaf_full=49 if nv == 1 else 34)
        if quick:
            progs = _sample(rng, progs, min(len(progs), 2000))
        elif len(progs) > 50000:
            progs = _sample(rng, progs, 50000)
            run.exhaustive = False
        for p in progs:
            n = rng.randint(2, 5)
            W = {"objs": [{"cls": "A", "f": datasets.obj_fields(rng, n)} for _ in range(n)]}
            for o in W["objs"]:          # mostly falsy
                for name in ("n", "m"):
                    if rng.random() < 0.5:
                        o["f"][name] = {"t": "int", "v": 0}
                if rng.random() < 0.5:
                    o["f"]["s"] = {"t": "str", "v": []}
                if rng.random() < 0.5:
                    o["f"]["items"] = {"t": "list", "v": []}
                if rng.random() < 0.4:
                    o["f"]["o"] = {"t": "none", "v": 0}
            doms = datasets.domains_for(rng, W, nv, shared=rng.random() < 0.3, maxdom=4)
            # (some cases: `f = x.n` written once and used wherever x.n occurs - one expression object in condition and
            # value positions alike)
            q = mk_query(p, doms, **({"shareexprs": True} if rng.random() < 0.3 else {}))
            qs, evs = [q], [drain_ev(1)]
            try:
                q2 = shift.shift_program(q)
                W2 = {"objs": W["objs"] + shift.shift_world(W, n)}
                q2["vars"] = [dict(v, dom=[o + n for o in v["dom"]]) for v in q2["vars"]]
                qs.append(q2)
                evs.append(drain_ev(2, eqto=1, eqoff=n))
                twins += 1
                qc.add(W2, qs, evs)
            except shift.NotShiftable:
                qc.add(W, qs, evs)

    # an attribute expression selected on its own: each satisfying object contributes its value, whatever it is (None too)
    sel_progs = run.export("GenQuery", "G1s", "PROG", constants=dict(G="G1s", NV=1, LeafLimit=12 if quick else 30, MaxLeaves=1,
                                                                      MaxNot=1, NeedNot=False), count=False)
    # ... and under two-leaf conditions, where the selected expression may also be one of the conditions (the same object
    # in a skippable condition position and in value position)
    sel2 = run.export("GenQuery", "G1s-2", "PROG", constants=dict(G="G1s", NV=1, LeafLimit=8 if quick else 16, MaxLeaves=2,
                                                                   MaxNot=1, NeedNot=False), count=False)
    sel2 = [p for p in sel2 if count_nodes(p["cond"], "truth") > 0]
    sel_progs = rng.sample(sel_progs, min(len(sel_progs), 300 if quick else 6000)) + rng.sample(sel2, min(len(sel2), 700 if quick else 12000))
    for p in sel_progs:
        n = rng.randint(2, 6)
        W = {"objs": [{"cls": "A", "f": datasets.obj_fields(rng, n)} for _ in range(n)]}
        for o in W["objs"]:
            if rng.random() < 0.5:
                o["f"]["o"] = {"t": "none", "v": 0}
        dom = list(range(1, n + 1))
        rng.shuffle(dom)
        qc.add(W, [mk_query(p, [dom], **({"shareexprs": True} if rng.random() < 0.5 else {}))],
               [drain_ev(1), drain_ev(1, eqto=1)], tag="selected-expression")

    def falsy_world(n):
        W = {"objs": [{"cls": "A", "f": datasets.obj_fields(rng, n)} for _ in range(n)]}
        for o in W["objs"]:
            for name in ("n", "m"):
                if rng.random() < 0.5:
                    o["f"][name] = {"t": "int", "v": 0}
            if rng.random() < 0.5:
                o["f"]["s"] = {"t": "str", "v": []}
            if rng.random() < 0.4:
                o["f"]["o"] = {"t": "none", "v": 0}
        return W
    # the other value positions the property names, on the same kind of data: flattened elements (C16), constructor
    # arguments of rule heads (C11), field constraints of predicate-form terms (C13)
    flat = run.export("GenQuery", "G7i", "PROG", constants=dict(G="G7i", NV=2, LeafLimit=40, MaxLeaves=1 if quick else 2, MaxNot=1,
                                                                NeedNot=False), count=False)
    for p in rng.sample(flat, min(len(flat), 400 if quick else 8000)):
        W = _no_repeats(falsy_world(rng.randint(2, 5)))
        qc.add(W, [mk_query(p, datasets.domains_for(rng, W, 1, maxdom=4))], [drain_ev(1)], tag="flatten")
    heads = run.export("GenQuery", "G4", "PROG", constants=dict(G="G4", NV=2, LeafLimit=10, MaxLeaves=1 if quick else 2, MaxNot=1,
                                                                NeedNot=False), count=False)
    for p in rng.sample(heads, min(len(heads), 300 if quick else 8000)):
        W = falsy_world(rng.randint(2, 5))
        doms = datasets.domains_for(rng, W, 2, maxdom=3)
        q = {"vars": [{"cls": "A", "dom": doms[0]}, {"cls": "A", "dom": doms[1]}], "flats": [], "bound": [],
             "desc": "entity", "quant": "infer", "sel": [], "cond": p["cond"], "head": p["head"], "varkeys": [1, 2]}
        qc.add(W, [q], [{"op": "infer", "qi": 1}], tag="head")
    terms = run.export("GenTerm", "fields", "PROG", constants=dict(Part="fields"), invariants=("Export",), count=False)
    for p in rng.sample(terms, min(len(terms), 300 if quick else 675)):
        W = falsy_world(rng.randint(3, 6))
        doms = datasets.domains_for(rng, W, len(p["vars"]), maxdom=5)
        qc.add(W, [mk_term_query(p, doms)], [drain_ev(1)], tag="term")

    def nontrivial(t):
        ev = t["evs"][0]
        q = t["qs"][0]
        if ev.get("exc") != "none":
            return None
        if ev["op"] == "infer":
            return digest(["head", q["cond"], q["head"]]) if 0 < len(ev["insts"]) < domain_size(q) else None
        if 0 < len(ev["rows"]) and (q.get("flats") or len(ev["rows"]) < domain_size(q)) and _has_falsy(t["W"], q):
            return digest([q["cond"], q["sel"], q.get("flats"), [v.get("fields") for v in q["vars"]]])
        return None
    qc.execute(nontrivial)
    run.extra["shifted_twins"] = twins
    return run.finish()


CHECKS["C19"] = check_C19


# ---------------------------------------------------------------------- C07
def check_C07(tier, seed):
    run = Run("C07", tier, seed)
    quick = tier == "quick"
    rng = random.Random(seed)
    run.rule = ("histories: every sequence (to the depth bound) of evaluate() / next / close / drain over one query, exported "
                "by TLC from the Lazy state machine, plus seeded random walks; each paired with G1 conditions and worlds; the "
                "domain is handed to the library as a one-shot logging generator; after every step the pull log must be "
                "exactly the prefix the specification prescribes; non-trivial = history with >=2 evaluations where a later "
                "evaluation re-reads memoised elements and pulls new ones")
    run.assumptions = QUERY_ASSUMPTIONS + ["evaluations of one history are sequential: a new evaluation starts only after "
                                           "the previous iterator was exhausted or closed (two live iterators over one "
                                           "memoised domain are outside C07's wording)"]
    run.mc("Lazy", "mech", constants=dict(N=4, MaxLen=8 if quick else 10),
           invariants=("MemoIsPulled", "PulledIsPrefix"), properties=("PullsOnlyGrow", "NoWorkOnNew"), constraint="Bound")
    run.mc("CacheProtocol", "lifecycle", constants=dict(N=3, ClearOnAbort=True, ClearResetsMark=True, ClearSkipsEmpty=False,
                                                         MaxLen=10), invariants=("ServesTruth", "MarkMeansComplete"),
           constraint="Bound")
    behs = run.export("Lazy", "export", "BEH", constants=dict(N=1, MaxLen=5 if quick else 7), invariants=("Export",),
                      constraint="Bound", count=False)
    behs += run.export("Lazy", "walks", "BEH", constants=dict(N=1, MaxLen=12 if quick else 20), invariants=("Export",),
                       constraint="Bound", simulate=300 if quick else 5000, depth=13 if quick else 21, count=False)
    progs = run.export("GenQuery", "G1", "PROG", constants=dict(G="G12", NV=1, LeafLimit=49, MaxLeaves=1 if quick else 2,
                                                                 MaxNot=1, NeedNot=False), count=False)
    progs += run.export("GenQuery", "G1-sim", "PROG", constants=dict(G="G12", NV=1, LeafLimit=49, MaxLeaves=4, MaxNot=2, NeedNot=False),
                        simulate=300 if quick else 3000, depth=14, count=False)
    cases = []
    for b in behs:
        for _ in range(3 if quick else 6):
            p = rng.choice(progs)
            W = datasets.random_world(rng, rng.randint(2, 6))
            dom = list(range(1, len(W["objs"]) + 1))
            rng.shuffle(dom)
            cases.append({"id": len(cases) + 1, "family": "lazy", "W": W, "q": mk_query(p, [dom]), "ops": b})
        # the query without any condition: every element qualifies, still one pull per result
        W = datasets.random_world(rng, rng.randint(2, 6))
        dom = list(range(1, len(W["objs"]) + 1))
        rng.shuffle(dom)
        cases.append({"id": len(cases) + 1, "family": "lazy", "W": W, "ops": b,
                      "q": mk_query(dict(progs[0], cond={"k": "true"}, sel=[{"k": "var", "i": 1}], desc="entity"), [dom])})
    traces = run.replay(cases)
    rej = run.validate("TraceLazy", traces)
    by_id = {c["id"]: c for c in cases}
    for t in traces:
        if t["id"] in rej:
            run.violation(by_id[t["id"]], t, rej[t["id"]], family="lazy")
            continue
        evs = t["evs"]
        news = [k for k, e in enumerate(evs) if e["op"] == "new"]
        if len(news) >= 2:
            at2 = len(evs[news[1]]["pulls"])
            if 0 < at2 < len(t["q"]["vars"][0]["dom"]) and len(evs[-1]["pulls"]) > at2:
                run.nontrivial.add(digest([t["q"]["cond"], [e["op"] for e in evs]]))
    run.samples = [{"ops": [e["op"] for e in t["evs"]], "domain": t["q"]["vars"][0]["dom"],
                    "pull_log_after_each_step": [e["pulls"] for e in t["evs"]],
                    "results": [e["res"] if e["op"] == "next" else e["rows"] for e in t["evs"]]} for t in traces[5:7]]
    return run.finish()


CHECKS["C07"] = check_C07


# ---------------------------------------------------------------------- C04
def _with_pred(progs):
    return [p for p in progs if count_nodes(p["cond"], "pred") > 0]


def _with_user_code(progs):
    """Programs that call user code during evaluation: predicates, or methods of the user's objects."""
    return [p for p in progs if count_nodes(p["cond"], "pred") > 0
            or any(m in json.dumps(p["cond"]) for m in ('"n_ge"', '"n_plus"', '"is_small"'))]


def _session_events(beh, nq, b3=False):
    evs = []
    for o in beh:
        if o["op"] == "drain":
            evs.append(dict(drain_ev(o["qi"]), b3=b3))
        elif o["op"] == "partial":
            evs.append({"op": "partial", "qi": o["qi"], "k": o["k"], "how": o["how"]})
        elif o["op"] == "raised":
            evs.append({"op": "raised", "qi": o["qi"], "at": o["k"], "want": "Boom", "how": "close"})
        elif o["op"] == "cfg":
            evs.append({"op": "cfg", "caching": bool(o["k"])})
        elif o["op"] == "build":
            evs.append({"op": "build", "qi": o["qi"]})
    return evs


def check_C04(tier, seed):
    run = Run("C04", tier, seed)
    quick = tier == "quick"
    rng = random.Random(seed)
    run.rule = ("histories: every sequence (to the depth bound) of full evaluations, partial evaluations (k results, then "
                "close or drop) and evaluations aborted by a user predicate raising at its j-th call, over a pool of 2 "
                "queries that share their variables, exported by TLC from EvalSession, plus random walks; every evaluation "
                "of a history is judged against the denotation whatever preceded it; plus domains listing an object "
                "twice (first vs later evaluations must agree) and a before/after snapshot of the user's lists and "
                "objects; non-trivial = a full evaluation after an abandoned/aborted one with a non-trivial answer")
    run.assumptions = QUERY_ASSUMPTIONS + ["an abandoned iterator is never resumed after another evaluation started"]
    run.mc("EvalSession", "histories", constants=dict(NQ=2, MaxLen=4 if quick else 5, WithCfg=False, WithBuild=False), invariants=("TypeOK",),
           constraint="Bound")
    # Layer B: the life cycle of an operator result cache over completed, abandoned and aborted evaluations
    run.mc("CacheProtocol", "lifecycle", constants=dict(N=3 if quick else 4, ClearOnAbort=True, ClearResetsMark=True,
                                                         ClearSkipsEmpty=False, MaxLen=10 if quick else 14),
           invariants=("ServesTruth", "MarkMeansComplete"), constraint="Bound")
    behs = run.export("EvalSession", "export", "BEH", constants=dict(NQ=2, MaxLen=3 if quick else 4, WithCfg=False, WithBuild=False),
                      invariants=("Export",), constraint="Bound", count=False)
    behs += run.export("EvalSession", "walks", "BEH", constants=dict(NQ=2, MaxLen=7, WithCfg=False, WithBuild=False), invariants=("Export",),
                       constraint="Bound", simulate=400 if quick else 6000, depth=8, count=False)
    qc = QueryCheck(run)
    progs = {}
    for nv in (1, 2, 3):
        ps = run.export("GenQuery", f"G{nv}", "PROG", constants=dict(G="G12", NV=nv, LeafLimit=16 if nv == 1 else 12, MaxLeaves=2,
                                                                      MaxNot=1, NeedNot=False), count=False)
        ps += run.export("GenQuery", f"G{nv}-sim", "PROG", constants=dict(G="G12", NV=nv, LeafLimit=(49, 34, 43)[nv - 1], MaxLeaves=4,
                                                                         MaxNot=2, NeedNot=False),
                         simulate=500 if quick else 4000, depth=14, count=False)
        # every single leaf of the full vocabulary (user code in comparison operands, predicates, ...) with and without not_
        ps += run.export("GenQuery", f"G{nv}-leaves", "PROG", constants=dict(G="G12", NV=nv, LeafLimit=60, MaxLeaves=1, MaxNot=1,
                                                                            NeedNot=False), count=False)
        progs[nv] = ps
    user_code = {nv: _with_user_code(progs[nv]) for nv in progs}
    for b in behs:
        needs_pred = any(o["op"] == "raised" for o in b)
        for _ in range((2 if needs_pred else 1) if quick else 3):
            # three variables: the two queries of the pool may each use a different subset of the shared variables
            nv = rng.choice((1, 2, 2, 3, 3))
            pool = user_code[nv] if needs_pred and rng.random() < 0.8 else progs[nv]
            W, doms = _world_and_doms(rng, nv, quick)
            qs = [mk_query(rng.choice(pool), doms, declare="given"), mk_query(rng.choice(progs[nv]), doms, declare="given")]
            # caching is on throughout: stage B3 predicts the rows of every full evaluation of the history, starting
            # from empty caches after an evaluation that did not run to completion
            qc.add(W, qs, _session_events(b, 2, b3=True), share_vars=rng.random() < 0.7)
    # a sub-query that is mentioned only inside a selected expression - set_of([x, an(entity(y, c)).n]) - keeps state below
    # the selection: after an abandoned or aborted evaluation the next ones must answer as if nothing had happened
    xx, yy = {"k": "var", "i": 1}, {"k": "var", "i": 2}

    def _cmp(op, e, a, v):
        return {"k": "cmp", "op": op, "l": {"k": "attr", "e": e, "a": a}, "r": {"k": "lit", "v": datasets.iv(v)}}
    subs = [_cmp("ge", yy, "n", 1), {"k": "or", "l": _cmp("eq", yy, "m", 0), "r": _cmp("ge", yy, "n", 2), "form": "fn"},
            {"k": "pred", "p": "p_pos", "args": [{"k": "attr", "e": yy, "a": "n"}], "form": "fn"}]
    outer = [{"k": "true"}, _cmp("ge", xx, "n", 1), {"k": "pred", "p": "p_pos", "args": [{"k": "attr", "e": xx, "a": "m"}], "form": "fn"}]
    for _ in range(300 if quick else 6000):
        W, doms = _world_and_doms(rng, 2, quick)
        sel = [xx, {"k": "attr", "e": {"k": "sub", "i": 2, "c": rng.choice(subs), "quant": "an"}, "a": rng.choice(["n", "m", "s"])}]
        if rng.random() < 0.3:
            sel.reverse()
        p = {"desc": "set_of", "sel": sel, "cond": rng.choice(outer), "flats": [], "bound": []}
        first = rng.choice([{"op": "partial", "qi": 1, "k": 1, "how": "close"}, {"op": "partial", "qi": 1, "k": 2, "how": "drop"},
                            {"op": "raised", "qi": 1, "at": rng.randint(1, 3), "want": "Boom", "how": "close"}])
        qc.add(W, [mk_query(p, doms)], [first, drain_ev(1), drain_ev(1)], tag="selected-sub-query")
    # rule trees: an abandoned evaluation (k instances taken, iterator closed) must not change what the next ones conclude
    for nv in (1, 2):
        trees = run.export("GenRule", f"trees{nv}", "TREE", constants=dict(MaxNodes=3, NConds=3, NV=nv, WithNext=False, SiblingRefs=False),
                           invariants=("Export", "SizeOK"), count=False)
        for t in rng.sample(trees, min(len(trees), 200 if quick else 5000)):
            W, doms = _world_and_doms(rng, nv, quick)
            q = {"vars": [{"cls": "A", "dom": doms[i]} for i in range(nv)], "flats": [], "bound": [], "desc": "entity",
                 "quant": "an", "sel": [], "cond": {"k": "true"}, "tree": t, "varkeys": list(range(1, nv + 1))}
            qc.add(W, [q], [{"op": "abandon", "qi": 1, "k": rng.randint(1, 3)}, {"op": "rule", "qi": 1},
                            {"op": "abandon", "qi": 1, "k": 1}, {"op": "rule", "qi": 1}], tag="rule-tree-abandoned")
    # an evaluation aborted by the user code of a comparison operand (a method call) at its very first call: nothing has
    # been cached yet when the abandoned evaluation is cleaned up, and the next evaluation must start from scratch
    def _cmp_runs_user_code(p):
        found = [False]

        def f(n):
            if n.get("k") in ("cmp", "in") and '"mcall"' in json.dumps(n):
                found[0] = True
        from .syntax import walk
        walk(p["cond"], f)
        return found[0]
    for nv in (1, 2):
        callers = [p for p in progs[nv] if _cmp_runs_user_code(p)]
        for p in rng.sample(callers, min(len(callers), 200 if quick else 4000)):
            W, doms = _world_and_doms(rng, nv, quick)
            q = mk_query(p, doms, declare="given")
            at = rng.choice([1, 1, 2])
            qc.add(W, [q], [{"op": "raised", "qi": 1, "at": at, "want": "Boom", "how": "close"}, dict(drain_ev(1), b3=True),
                            dict(drain_ev(1), b3=True)], tag="aborted-at-first-call")
    # pairs of queries over three shared variables that compare variables directly (h == c.ref): what one evaluation
    # binds must not be visible to the next evaluation of another query over the same variables
    shared = run.export("GenQuery", "G3s", "PROG", constants=dict(G="G3s", NV=3, LeafLimit=8, MaxLeaves=2, MaxNot=0, NeedNot=False),
                        count=False)
    shared = [p for p in shared if p["cond"]["k"] != "true"]
    for _ in range(1500 if quick else 30000):
        W, doms = _world_and_doms(rng, 3, quick)
        qs = [mk_query(rng.choice(shared), doms), mk_query(rng.choice(shared), doms)]
        first = rng.choice([drain_ev(1), {"op": "partial", "qi": 1, "k": rng.randint(1, 2), "how": "close"}])
        qc.add(W, qs, [first, drain_ev(2), drain_ev(1), drain_ev(2)], share_vars=True, tag="shared3")
    # duplicate-listing domains: the first and every later evaluation agree
    for _ in range(150 if quick else 2000):
        p = rng.choice(progs[1])
        W = datasets.random_world(rng, rng.randint(2, 4))
        n = len(W["objs"])
        dom = [rng.randint(1, n) for _ in range(rng.randint(2, 5))]
        qc.add(W, [mk_query(p, [dom])], [drain_ev(1), drain_ev(1, eqbag=1), drain_ev(1, eqbag=1)], tag="dup")

    # typed variables over mixed-class domains (possibly without any instance of the type) evaluated repeatedly,
    # alone and by a second query that shares the variable
    x = {"k": "var", "i": 1}
    for _ in range(120 if quick else 2500):
        W = _hier_world(rng, rng.randint(3, 7))
        n = len(W["objs"])
        T = rng.choice(["Base", "Mid", "Leaf"])
        dom = rng.sample(range(1, n + 1), rng.randint(1, n))
        if rng.random() < 0.4:
            sub = {"Base": ("Base", "Mid", "Leaf"), "Mid": ("Mid", "Leaf"), "Leaf": ("Leaf",)}[T]
            dom = [o for o in dom if W["objs"][o - 1]["cls"] not in sub]
        conds = [{"k": "true"}, {"k": "cmp", "op": "ge", "l": {"k": "attr", "e": x, "a": "n"}, "r": {"k": "lit", "v": datasets.iv(1)}},
                 {"k": "truth", "e": {"k": "attr", "e": x, "a": "m"}}]
        qs = [{"vars": [{"cls": T, "dom": dom}], "flats": [], "bound": [], "desc": "entity", "quant": "an", "sel": [x],
               "cond": rng.choice(conds), "varkeys": [1]} for _ in range(2)]
        evs = [drain_ev(1), drain_ev(1), drain_ev(2), {"op": "partial", "qi": 1, "k": 1, "how": "close"}, drain_ev(2), drain_ev(1)]
        qc.add(W, qs, evs, share_vars=True, tag="typed")

    def nontrivial(t):
        seen_abort = False
        for ev in t["evs"]:
            if ev["op"] in ("partial", "raised") and (ev["op"] == "partial" or ev["exc"] != "none"):
                seen_abort = True
            if ev["op"] == "drain" and seen_abort and ev["exc"] == "none":
                q = t["qs"][ev["qi"] - 1]
                if 0 < len(ev["rows"]) < domain_size(q):
                    return digest([t["qs"], [(e["op"], e.get("qi"), e.get("k"), e.get("at")) for e in t["evs"]]])
        return None
    qc.execute(nontrivial)
    return run.finish()


CHECKS["C04"] = check_C04


# ---------------------------------------------------------------------- C05
def _c05_events(rng=None, b3=False):
    # where the two query objects are constructed: before the history (caching enabled), or as steps of it under a
    # configuration of their own
    pre = rng.choice([[], [], [("off", 1), ("off", 2)], [("off", 1), ("on", 2)], [("on", 1), ("off", 2)]]) if rng else []
    head = []
    for cfg, qi in pre:
        head += [{"op": "cfg", "caching": cfg == "on"}, {"op": "build", "qi": qi}]
    k = len(head) + 2            # position of the first full evaluation: the one every other is compared with
    # b3: stage B3 of the mechanism model predicts the exact rows of the first three (cached) evaluations
    return head + [{"op": "cfg", "caching": True}, dict(drain_ev(1), b3=b3), dict(drain_ev(1, eqto=k), b3=b3),
                   dict(drain_ev(1, eqto=k), b3=b3),
                   {"op": "cfg", "caching": False}, drain_ev(2, eqto=k), drain_ev(2, eqto=k),
                   # the same expression object under the other configuration, back and forth
                   drain_ev(1, eqto=k), {"op": "cfg", "caching": True}, drain_ev(2, eqto=k), drain_ev(1, eqto=k)]


def check_C05(tier, seed, extra_programs=None):
    run = Run("C05", tier, seed)
    quick = tier == "quick"
    rng = random.Random(seed)
    run.rule = ("every generated program (G1, G2 joins over 2 and 3 variables, disjunctions over equal and different variable "
                "sets, negation, for_all, nested queries) is built twice and evaluated under caching enabled (3 times) and "
                "disabled (twice), then each object under the other configuration; TLC judges every evaluation against the "
                "denotation (multiset when all variables are selected) and all row sets must be equal; non-trivial = a "
                "cached evaluation that took >=1 retrieval from an operator cache and returned a non-trivial answer")
    run.assumptions = QUERY_ASSUMPTIONS
    qc = QueryCheck(run)
    findings = [f for f in load_findings() if f["property"] == "C05"]
    # Layer B, stage B3 (operator result caches), first evaluation and re-evaluation against the denotation: holds for
    # two-variable programs and for and_/or_ trees over three independent variables with the descent the code has now
    # (every matching branch); with the descent it had before "fix: IndexedCache.retrieve ..." TLC finds the programs
    # that lost rows (the deviation must break the obligation, else the repair is mis-recorded)
    b3 = dict(CODE, MaxNot=1, NeedNot=False)
    run.mc("MechCheck", "b3-two-variables", constants=dict(b3, G="G12", NV=2, LeafLimit=8 if quick else 16, MaxLeaves=2,
                                                            PreferWildcardB3=False), invariants=("Mech3EqualsSem",))
    run.mc("MechCheck", "b3-three-variables", constants=dict(b3, G="G1x", NV=3, LeafLimit=6, MaxLeaves=3, MaxNot=0,
                                                              PreferWildcardB3=False), invariants=("Mech3EqualsSem",))
    run.mc("MechCheck", "b3-descent-before-the-repair", constants=dict(b3, G="G1x", NV=3, LeafLimit=6, MaxLeaves=3, MaxNot=0,
                                                                      PreferWildcardB3=True), invariants=("Mech3EqualsSem",),
           expect_violation="Mech3EqualsSem", count=False)
    # and_/or_ trees of four distinct leaves over the variable sets {1,2}, {1,3}, {1}, {1,3}: a conjunction's cache holds a
    # result stored while variable 3 was unbound next to the same result stored under a value of it, and a later lookup
    # matches both - replayed once with the code as it is now; replayed twice before "fix: a cached result stored under a
    # partial binding ...", and TLC finds the program that then returns a row twice
    run.mc("MechCheck", "b3-partial-bindings", constants=dict(b3, G="G3w", NV=3, LeafLimit=4, MaxLeaves=3 if quick else 4, MaxNot=0,
                                                               PreferWildcardB3=False), invariants=("Mech3EqualsSem",))
    run.mc("MechCheck", "b3-replay-before-the-repair", constants=dict(b3, G="G3w", NV=3, LeafLimit=4, MaxLeaves=4, MaxNot=0,
                                                                       PreferWildcardB3=False, ReplayLeavesOutRepeats=False),
           invariants=("Mech3EqualsSem",), expect_violation="Mech3EqualsSem", count=False)
    # the conjunctions of two disjunctions over the whole G3w vocabulary (grammar G3ws; variable sets {1,2}, {1,3}, {1},
    # {1,3}, {2,3}, {2}, {3}, {1,2}): holds with the code as it is now; before "fix: a disjunction did not cache ..." and
    # before "fix: results of a right operand that differ in a variable of the left operand ..." TLC finds the programs
    # that lose a row with caching enabled (both were first derived this way)
    run.mc("MechCheck", "b3-two-disjunctions", constants=dict(b3, G="G3ws", NV=3, LeafLimit=6 if quick else 8, MaxLeaves=4, MaxNot=0),
           invariants=("Mech3EqualsSem",))
    # (the code before the first of the two repairs had both switches off; with the second repair in place the first one is
    # not needed for this family any more - it still closes the hole in the disjunction's own cache)
    for name, off in (("b3-before-both-repairs", ("ElseIfStoresDuplicates", "RightKeepsLeftVars")),
                      ("b3-right-operand-before-the-repair", ("RightKeepsLeftVars",))):
        run.mc("MechCheck", name, constants=dict(b3, G="G3ws", NV=3, LeafLimit=8, MaxLeaves=4, MaxNot=0, **{k: False for k in off}),
               invariants=("Mech3EqualsSem",), expect_violation="Mech3EqualsSem", count=False)
    # bare attribute / method-call conditions on one variable under bindings of the other (grammar G2t), with negations
    run.mc("MechCheck", "b3-bare-conditions", constants=dict(b3, G="G2t", NV=2, LeafLimit=6, MaxLeaves=2 if quick else 3),
           invariants=("Mech3EqualsSem",))
    if not quick:
        # every and_/or_ tree of up to four of the first six leaves
        run.mc("MechCheck", "b3-partial-bindings-six-leaves", constants=dict(b3, G="G3w", NV=3, LeafLimit=6, MaxLeaves=4, MaxNot=0),
               invariants=("Mech3EqualsSem",))
    for nv in (1, 2, 3):
        progs = _programs(run, nv, quick, sim_quick=500, sim_full=8000, leaf_quick=10 if nv < 3 else 8,
                          leaf_full=30 if nv == 1 else (24 if nv == 2 else 16))
        if quick:
            progs = _sample(rng, progs, min(len(progs), 900))
        elif len(progs) > 30000:
            progs = _sample(rng, progs, 30000)
            run.exhaustive = False
        if nv == 2:
            progs += _bare_condition_programs(run, quick)
        if nv == 3:
            # conditions on three independent variables combined by and_/or_: partial bindings in the operator caches
            extra = run.export("GenQuery", "G1x-bfs", "PROG", constants=dict(G="G1x", NV=3, LeafLimit=6, MaxLeaves=3, MaxNot=0,
                                                                             NeedNot=False), invariants=("Export", "WellFormed"))
            extra = [p for p in extra if len(normalize(dict(p, vars=[]), 3)["_used"]) == 3]
            progs += rng.sample(extra, min(len(extra), 600 if quick else 20000))
            # results stored under partial bindings next to results stored under full ones (grammar G3w)
            progs += _partial_binding_programs(run, rng, quick, qc, lambda q: qc.add(
                q[0], [q[1], copy.deepcopy(q[1])], _c05_events(rng, b3=True)))
        for p in progs:
            W, doms = _world_and_doms(rng, nv, quick, value_equal_p=0.2, prog=p)
            q = mk_query(p, doms, declare="random")
            qc.add(W, [q, copy.deepcopy(q)], _c05_events(rng, b3=True))
    # constant conditions (no variable at all) alone and combined with ordinary ones
    konst = run.export("GenQuery", "G1k", "PROG", constants=dict(G="G1k", NV=1, LeafLimit=11, MaxLeaves=2, MaxNot=1, NeedNot=False),
                       count=False)
    for p in rng.sample(konst, min(len(konst), 300 if quick else 3000)):
        W, doms = _world_and_doms(rng, 1, quick)
        q = mk_query(p, doms)
        qc.add(W, [q, copy.deepcopy(q)], _c05_events(rng))
    # the further grammars: for_all, sub-queries, flatten, concatenate (each re-evaluated under both configurations)
    for g, nvars, fix in (("G3", 2, None), ("G3y", 3, None), ("G6", 3, None), ("G7i", 1, _no_repeats), ("G7o", 1, _no_repeats), ("G7c", 2, None)):
        gp = run.export("GenQuery", f"{g}-bfs", "PROG", constants=dict(G=g, NV=2, LeafLimit=12 if quick else 40, MaxLeaves=2, MaxNot=1,
                                                                        NeedNot=False), invariants=("Export", "WellFormed"), count=False)
        if g == "G6":
            gp = [p for p in gp if _the_ok(p)]       # the same domain restrictions as C15
        if g == "G3y":
            gp = [p for p in gp if '"i": 3' in json.dumps(p["cond"])]
        for p in rng.sample(gp, min(len(gp), 250 if quick else 6000)):
            W, doms = _world_and_doms(rng, nvars, quick)
            if fix:
                W = fix(copy.deepcopy(W))
            if g == "G6":
                doms = _the_doms(p, W, doms, rng)
            q = mk_query(p, doms)
            qc.add(W, [q, copy.deepcopy(q)], _c05_events(rng))
    # rule trees and rules: evaluated under on, on, off, on
    for nv in (1, 2):
        trees = run.export("GenRule", f"trees{nv}", "TREE", constants=dict(MaxNodes=3, NConds=3 if quick else 4, NV=nv, WithNext=False, SiblingRefs=False),
                           invariants=("Export", "SizeOK"), count=False)
        for t in rng.sample(trees, min(len(trees), 150 if quick else 4000)):
            W, doms = _world_and_doms(rng, nv, quick)
            q = {"vars": [{"cls": "A", "dom": doms[i]} for i in range(nv)], "flats": [], "bound": [], "desc": "entity",
                 "quant": "an", "sel": [], "cond": {"k": "true"}, "tree": t, "varkeys": list(range(1, nv + 1))}
            qc.add(W, [q, copy.deepcopy(q)], [{"op": "cfg", "caching": True}, {"op": "rule", "qi": 1}, {"op": "rule", "qi": 1},
                                              {"op": "cfg", "caching": False}, {"op": "rule", "qi": 2}, {"op": "rule", "qi": 1},
                                              {"op": "cfg", "caching": True}, {"op": "rule", "qi": 2}])
    # rule trees that also use `with next_rule(c):` branches: what such a branch means is not fixed by the listed properties,
    # that the answer is the same under both configurations and on re-evaluation is (C05 speaks of every rule tree)
    for nv in (1, 2):
        trees = run.export("GenRule", f"next{nv}", "TREE", constants=dict(MaxNodes=3, NConds=3, NV=nv, WithNext=True, SiblingRefs=False),
                           invariants=("Export", "SizeOK"), count=False)
        trees = [t for t in trees if '"edge": "next"' in json.dumps(t)]
        for t in rng.sample(trees, min(len(trees), 150 if quick else 4000)):
            W, doms = _world_and_doms(rng, nv, quick)
            q = {"vars": [{"cls": "A", "dom": doms[i]} for i in range(nv)], "flats": [], "bound": [], "desc": "entity",
                 "quant": "an", "sel": [], "cond": {"k": "true"}, "tree": t, "varkeys": list(range(1, nv + 1))}

            def rule(qi, eq):
                return {"op": "rule", "qi": qi, "nosem": True, "eqinst": eq}
            qc.add(W, [q, copy.deepcopy(q)], [{"op": "cfg", "caching": True}, rule(1, 0), rule(1, 2), {"op": "cfg", "caching": False},
                                              rule(2, 2), rule(1, 2), {"op": "cfg", "caching": True}, rule(2, 2)], tag="next_rule")
    # histories that interleave configuration switches with full, partial and aborted evaluations of two query objects
    behs = run.export("EvalSession", "cfg-walks", "BEH", constants=dict(NQ=2, MaxLen=7, WithCfg=True, WithBuild=True),
                      invariants=("Export",), constraint="Bound", simulate=8000 if quick else 90000, depth=8, count=False)
    behs = [b for b in behs if any(o["op"] == "cfg" for o in b)]
    pool = {nv: _programs(run, nv, True, sim_quick=300, tag="-h") for nv in (1, 2)}
    for b in behs:
        nv = rng.choice((1, 2))
        W, doms = _world_and_doms(rng, nv, quick)
        qs = [mk_query(rng.choice(pool[nv]), doms, declare="random"), mk_query(rng.choice(pool[nv]), doms)]
        qc.add(W, qs, _session_events(b, 2), share_vars=rng.random() < 0.5)
    for (W, q) in (extra_programs or []):
        qc.add(W, [q, copy.deepcopy(q)], _c05_events())

    def nontrivial(t):
        evs = [e for e in t["evs"] if e["op"] == "drain"]
        if len(evs) > 1 and evs[1].get("hits", 0) > 0 and 0 < len(evs[1]["rows"]) < domain_size(t["qs"][0]):
            return digest([t["qs"][0]["cond"], t["qs"][0]["sel"]])
        rules = [e for e in t["evs"] if e["op"] == "rule"]
        if len(rules) > 1 and rules[1].get("hits", 0) > 0 and rules[1].get("insts"):
            return digest(t["qs"][0]["tree"])
        return None
    qc.execute(nontrivial)
    return run.finish()


CHECKS["C05"] = check_C05


# ------------------------------------------------------- C10 C15 C16 C17 (further grammars)
def _no_repeats(W):
    """Inner collections without repeated elements (whether a repeated element of one inner collection gives one
    row or two is not fixed by C16's wording; everything else is)."""
    for o in W["objs"]:
        for name in ("items", "t", "refs"):
            seen, out = set(), []
            for x in o["f"][name]["v"]:
                if x["v"] not in seen:
                    seen.add(x["v"])
                    out.append(x)
            o["f"][name]["v"] = out
    return W


def _grammar_check(prop, tier, seed, grammars, rule, nvars, leaf_quick=40, sim_quick=400, sim_full=6000,
                   worlds_per_prog=(1, 3), nontrivial=None, quick_cap=2500, full_cap=40000, events=None,
                   maxleaves_sim=(3, 5), needs=None, fix_world=None, extra=None, fix_doms=None, b3_when=None):
    run = Run(prop, tier, seed)
    quick = tier == "quick"
    run.rule = rule
    run.assumptions = QUERY_ASSUMPTIONS
    qc = QueryCheck(run)
    rng = qc.rng
    for g in grammars:
        progs = run.export("GenQuery", f"{g}-bfs", "PROG", constants=dict(
            G=g, NV=2, LeafLimit=leaf_quick if quick else 60, MaxLeaves=2, MaxNot=1, NeedNot=False),
            invariants=("Export", "WellFormed"))
        progs += run.export("GenQuery", f"{g}-sim", "PROG", constants=dict(
            G=g, NV=2, LeafLimit=60, MaxLeaves=maxleaves_sim[0] if quick else maxleaves_sim[1], MaxNot=2, NeedNot=False),
            simulate=sim_quick if quick else sim_full, depth=12 if quick else 18)
        if needs:
            progs = [p for p in progs if needs(p)]
        cap = quick_cap if quick else full_cap
        if len(progs) > cap:
            progs = _sample(rng, progs, cap)
            run.exhaustive = False
        for p in progs:
            for _ in range(worlds_per_prog[0] if quick else worlds_per_prog[1]):
                W, doms = _world_and_doms(rng, nvars, quick)
                if fix_world:
                    W = fix_world(copy.deepcopy(W))
                if fix_doms:
                    doms = fix_doms(p, W, doms, rng)
                q = mk_query(p, doms)
                # evaluated twice: the second evaluation is served by the operator caches
                evs = events(q) if events else [drain_ev(), drain_ev()]
                if b3_when and b3_when(p):     # the mechanism model covers this program: it must predict the exact rows
                    q = dict(q, declare=list(range(1, len(q["vars"]) + 1)))
                    evs = [dict(e, b3=True) if e["op"] == "drain" else e for e in evs]
                qc.add(W, [q], evs)
    if extra:
        extra(qc, rng, quick)
    qc.execute(nontrivial or _nontrivial_rows)
    return run.finish()


def check_C10(tier, seed):
    def nontrivial(t):
        ev = t["evs"][0]
        q = t["qs"][0]
        free = [v for k, v in enumerate(q["vars"]) if (k + 1) not in q["bound"]]
        n = 1
        for v in free:
            n *= len(v["dom"])
        if ev.get("exc") == "none" and 0 < len(ev["rows"]) < n:
            return digest(q["cond"])
        return None
    def extra(qc, rng, quick):
        run = qc.run
        # Layer B, stage B4: the mechanism of for_all (per universal value: evaluate, complete, project, de-duplicate,
        # intersect, early exit) yields the denotation's rows on first evaluation and re-evaluation; before
        # "fix: for_all lost solutions ..." it did not (second free variable under the quantifier)
        b4 = dict({k: v for k, v in CODE.items() if k != "ForAllKeepsConditionVars"}, MaxLeaves=2, MaxNot=1, NeedNot=False)
        run.mc("MechCheck", "b4-for_all", constants=dict(b4, G="G3", NV=2, LeafLimit=4 if quick else 12, ForAllKeepsConditionVars=True),
               invariants=("Mech4EqualsSem",))
        run.mc("MechCheck", "b4-second-free-variable", constants=dict(b4, G="G3y", NV=3, LeafLimit=3 if quick else 8,
                                                                      ForAllKeepsConditionVars=True), invariants=("Mech4EqualsSem",))
        run.mc("MechCheck", "b4-before-the-repair", constants=dict(b4, G="G3y", NV=3, LeafLimit=8, ForAllKeepsConditionVars=False),
               invariants=("Mech4EqualsSem",), expect_violation="Mech4EqualsSem", count=False)
        # universals that are the solutions of a sub-query (part of the two runs above): their caches are cleared when the
        # quantifier stops early; before "fix: for_all that fails early ..." they were not, and TLC finds the program whose
        # second evaluation of the quantifier ranges over a truncated universal domain
        run.mc("MechCheck", "b4-universal-caches-before-the-repair",
               constants=dict(b4, G="G3y", NV=3, LeafLimit=8, ForAllKeepsConditionVars=True, ForAllInvalidatesUniversal="never"),
               invariants=("Mech4EqualsSem",), expect_violation="Mech4EqualsSem", count=False)
        # conditions of three leaves under the quantifier (a disjunction nested in a conjunction and vice versa)
        three = run.export("GenQuery", "G3-3leaves", "PROG", constants=dict(G="G3", NV=2, LeafLimit=5, MaxLeaves=3, MaxNot=0,
                                                                           NeedNot=False), invariants=("Export", "WellFormed"), count=False)
        three = [p for p in three if count_nodes(p["cond"], "cmp") + count_nodes(p["cond"], "in") >= 3]
        # the quantifier standing alone over a plain universal, its condition mixing and_ and or_ (the free variable is
        # bound by the quantifier itself, some branches leave it unbound): all of them; the rest sampled
        def leaves_x_unbound(c):      # a disjunction one branch of which mentions the free variable and the other does not
            if c["k"] == "or":
                sides = ['"i": 1' in json.dumps(c["l"]), '"i": 1' in json.dumps(c["r"])]
                if sides[0] != sides[1]:
                    return True
            return any(leaves_x_unbound(c[k]) for k in ("l", "r", "c") if isinstance(c.get(k), dict) and "k" in c[k]
                       and c[k]["k"] in ("and", "or", "forall", "not"))
        mixed = [p for p in three if p["cond"]["k"] == "forall" and '"sub"' not in json.dumps(p["cond"]["ue"])
                 and count_nodes(p["cond"], "and") >= 1 and leaves_x_unbound(p["cond"])]
        for p in mixed * (2 if quick else 5) + rng.sample(three, min(len(three), 400 if quick else 20000)):
            W, doms = _world_and_doms(rng, 2, quick)
            plain = '"k": "sub' not in json.dumps(p["cond"])
            qc.add(W, [mk_query(p, doms, declare="given") if plain else mk_query(p, doms)],
                   [dict(drain_ev(), b3=plain), dict(drain_ev(), b3=plain)], tag="three-leaves")
        # a second free variable that occurs only under the quantifier: x qualifies when some y makes the universal
        # statement true; the for_all is then evaluated once per binding of x
        progs = run.export("GenQuery", "G3y-bfs", "PROG", constants=dict(G="G3y", NV=3, LeafLimit=10, MaxLeaves=2, MaxNot=1,
                                                                        NeedNot=False), invariants=("Export", "WellFormed"))
        progs = [p for p in progs if '"i": 3' in json.dumps(p["cond"])]
        for p in rng.sample(progs, min(len(progs), 600 if quick else 15000)):
            W, doms = _world_and_doms(rng, 3, quick)
            plain = '"k": "sub' not in json.dumps(p["cond"])
            qc.add(W, [mk_query(p, doms, declare="given") if plain else mk_query(p, doms)],
                   [dict(drain_ev(), b3=plain), dict(drain_ev(), b3=plain)], tag="second-free-variable")
        # the same on worlds in which y refers to the x objects and holds some of the universal values, the universal
        # values being the solutions of a sub-query: the quantifier fails for one x after a few universal values and is
        # evaluated again for the next x
        def quantified(c):
            if c["k"] == "forall":
                return c
            for k in ("l", "r", "c"):
                if isinstance(c.get(k), dict) and quantified(c[k]):
                    return quantified(c[k])
            return None

        def rooms_shape(p):      # a conjunction under the quantifier that relates y to x and to u; u from a sub-query
            f = quantified(p["cond"])
            js = json.dumps(f["c"]) if f else ""
            return bool(f) and f["ue"]["k"] == "sub" and f["c"]["k"] == "and" and '"i": 1' in js and '"i": 3' in js
        shaped = [p for p in progs if rooms_shape(p)]
        # the textbook reading of that shape (y belongs to x, y holds u's value) on the textbook world, many domain orders
        textbook = [p for p in shaped if '"ref"' in json.dumps(quantified(p["cond"])["c"])
                    and '"k": "in"' in json.dumps(quantified(p["cond"])["c"])]
        for p in textbook:
            for _ in range(8 if quick else 40):
                W, doms = datasets.rooms_covering_world(rng)
                qc.add(W, [mk_query(p, doms)], [drain_ev(), drain_ev()], tag="rooms-textbook")
        for p in rng.sample(shaped, min(len(shaped), 700 if quick else 2300)) * (1 if quick else 3):
            W, doms = datasets.rooms_covering_world(rng) if rng.random() < 0.8 else datasets.rooms_world(rng)
            qc.add(W, [mk_query(p, doms)], [drain_ev(), drain_ev()], tag="rooms")
    return _grammar_check(
        "C10", tier, seed, ["G3"],
        "for_all(u, c) and for_all(u.n, c) with c any tree over leaves that mention the universal variable, the free "
        "variable, both (joins, membership, predicates), negated or not, alone or conjoined (either side) with a condition "
        "on the free variable; universal domains are non-empty; TLC computes the universally quantified statement; "
        "non-trivial = some but not all bindings of the free variable qualify", 2, nontrivial=nontrivial, extra=extra,
        # Layer B, stage B4: quantifiers over a plain variable (or an attribute of it) are covered by the mechanism model
        b3_when=lambda p: '"k": "sub' not in json.dumps(p["cond"]))


def check_C16(tier, seed):
    def nontrivial(t):
        ev = t["evs"][0]
        if ev.get("exc") == "none" and len(ev["rows"]) > 1:
            return digest([t["qs"][0]["cond"], t["qs"][0]["sel"], t["qs"][0]["flats"]])
        return None
    return _grammar_check(
        "C16", tier, seed, ["G7i", "G7o", "G7p"],
        "flatten(e) for e in x.items / x.t (int lists, tuples, possibly empty, overlapping, repeated elements), x.n (a "
        "scalar), x.o (a scalar that may be None), x.refs / x.ref (objects); selections {element}, {parent, element}, {element, parent}; with and "
        "without conditions on the element, the parent or both; rows compared as a multiset when parent and element are "
        "selected; non-trivial = more than one row", 1, nontrivial=nontrivial, fix_world=_no_repeats)


def check_C17(tier, seed):
    def events(q):
        return [drain_ev(), drain_ev()]

    def nontrivial(t):
        ev = t["evs"][0]
        q = t["qs"][0]
        if ev.get("exc") == "none" and ev["rows"] and len(q["vars"]) == 2 and 0 < len(ev["rows"]) < len(q["vars"][1]["dom"]):
            return digest(q["cond"])
        return None
    def extra(qc, rng, quick):
        # the parents of the concatenation are the solutions of a sub-query and the candidate is bound first: the sub-query
        # (disjunctions, a conjunction that starts with a bare attribute) is evaluated again for every candidate - many
        # worlds each, what goes wrong there goes wrong from the second or third candidate on
        run = qc.run
        subp = run.export("GenQuery", "G7c-subparents", "PROG", constants=dict(G="G7c", NV=2, LeafLimit=60, MaxLeaves=1, MaxNot=1,
                                                                              NeedNot=False), count=False)
        subp = [p for p in subp if count_nodes(p["cond"], "sub") > 0]
        for p in subp:
            for _ in range(40 if quick else 600):
                W = datasets.random_world(rng, rng.randint(3, 6))
                doms = datasets.domains_for(rng, W, 2, maxdom=5)
                doms[1] = rng.sample(range(1, len(W["objs"]) + 1), min(len(W["objs"]), rng.randint(3, 5)))
                qc.add(W, [mk_query(p, doms)], [drain_ev(), drain_ev(1, eqto=1)], tag="sub-query-parents")
        # concatenate(e) selected: exactly one row, the list of everything in domain order and inner order - selected
        # through entity or set_of (alone or next to a free variable), e over a variable or over a sub-query (which
        # restricts the parents), evaluated repeatedly under both cache configurations
        x, y = {"k": "var", "i": 1}, {"k": "var", "i": 2}

        def cmp(op, a, v):
            return {"k": "cmp", "op": op, "l": {"k": "attr", "e": x, "a": a}, "r": {"k": "lit", "v": datasets.iv(v)}}
        subconds = [cmp("ge", "n", 1), {"k": "or", "l": cmp("ge", "n", 2), "r": cmp("eq", "n", 0), "form": "fn"},
                    {"k": "and", "l": cmp("ge", "n", 1), "r": cmp("le", "m", 1), "form": "fn"},
                    {"k": "not", "c": cmp("eq", "m", 0), "form": "fn"}]
        for _ in range(300 if quick else 5000):
            W = datasets.random_world(rng, rng.randint(1, 6))
            doms = datasets.domains_for(rng, W, 2, maxdom=5)
            attr = rng.choice(["items", "t", "n", "refs", "ref", "s", "pairs"])
            parent = x if rng.random() < 0.5 else {"k": "sub", "i": 1, "c": rng.choice(subconds), "quant": "an"}
            c = {"k": "concat", "e": {"k": "attr", "e": parent, "a": attr}}
            shape = rng.choice(["entity", "set_of", "set_of+y"])
            q = {"vars": [{"cls": "A", "dom": doms[0]}] + ([{"cls": "A", "dom": doms[1]}] if shape == "set_of+y" else []),
                 "flats": [], "bound": [1], "desc": "entity" if shape == "entity" else "set_of", "quant": "an",
                 "sel": [c] + ([y] if shape == "set_of+y" else []), "cond": {"k": "true"},
                 "varkeys": [1, 2] if shape == "set_of+y" else [1]}
            evs = [drain_ev(), drain_ev(1, eqto=1), drain_ev(1, eqto=1)]
            if rng.random() < 0.4:
                evs = [{"op": "cfg", "caching": False}, drain_ev(), drain_ev(1, eqto=2), drain_ev(1, eqto=2)]
            qc.add(W, [q], evs, tag="concat-selected")
    rc = _grammar_check(
        "C17", tier, seed, ["G7c"],
        "membership of y.n / y.m / y / y.ref in concatenate(x.items | x.t | x.n | x.refs | x.ref) and its negation, combined "
        "with other conditions on y, over parents with empty, overlapping and repeated inner collections; plus "
        "concatenate(e) selected (entity, set_of, next to a free variable; e over a variable or a sub-query), whose single "
        "value must be the list of all elements in domain and inner order, on every re-evaluation; "
        "non-trivial = some but not all y selected", 2, events=events, nontrivial=nontrivial,
        needs=lambda p: count_nodes(p["cond"], "concat") > 0, extra=extra)
    return rc


def _the_ok(p):
    # a correlated the(...) is only meaningful where the enclosing variable is bound before it is reached: alone with
    # the enclosing variable's expression on the left, or as the right conjunct of conditions on that variable
    c = p["cond"]
    if '"quant": "the"' not in json.dumps(c):
        return True

    def the_leaf(n):
        return n["k"] == "cmp" and '"quant": "the"' in json.dumps(n["r"]) and '"quant"' not in json.dumps(n["l"])
    return the_leaf(c) or (c["k"] == "and" and the_leaf(c["r"]) and '"i": 2' not in json.dumps(c["l"])
                           and '"quant"' not in json.dumps(c["l"]))

def _the_doms(p, W, doms, rng):
    # the(entity(y, y == x.ref)) has exactly one solution per x when y ranges over the whole heap
    if '"quant": "the"' in json.dumps(p["cond"]):
        allobjs = list(range(1, len(W["objs"]) + 1))
        rng.shuffle(allobjs)
        return [doms[0], allobjs] + doms[2:]
    return doms


def check_C15(tier, seed):
    def events(q):
        return [drain_ev(), drain_ev()]

    def extra(qc, rng, quick):
        # the same sub-query *object* used wherever its expression occurs again within one query (the documented way to
        # reuse an intermediate object across conditions)
        run = qc.run
        pool = run.export("GenQuery", "G6-pool", "PROG", constants=dict(G="G6", NV=2, LeafLimit=40, MaxLeaves=2, MaxNot=0,
                                                                        NeedNot=False), count=False)
        pool = [p for p in pool if count_nodes(p["cond"], "subq") + count_nodes(p["cond"], "sub") > 0 and _the_ok(p)
                and '"quant": "the"' not in json.dumps(p["cond"])]
        for _ in range(500 if quick else 10000):
            # one query, built once with separate and once with shared sub-query objects.  (Sharing a sub-query object
            # between two *different* queries is not explored: an expression node has one parent, the second query
            # re-parents it - DESIGN section 8.)
            W, doms = _world_and_doms(rng, 3, quick)
            p1 = rng.choice(pool)
            qc.add(W, [mk_query(p1, doms), mk_query(p1, doms, sharesubs=True)],
                   [drain_ev(1), drain_ev(2, eqto=1), drain_ev(2, eqto=1)], tag="shared-within")
    return _grammar_check(
        "C15", tier, seed, ["G6"],
        "sub-queries an(entity(x, c)), an(entity(y, c)), an(set_of([x, y], c)) used as conditions of an enclosing query "
        "and combined with and_/or_/not_ with each other and with plain conditions; sub-queries used as comparison "
        "operands (an(entity(y, c)).n == x.m, an(entity(y, c)) == x.ref, contains(x.refs, an(...))); TLC gives each the "
        "meaning of its conditions inlined; correlated sub-queries (inner condition on a variable of the enclosing query) "
        "with an and with the (unique solution per outer binding); non-trivial = result neither empty nor everything", 3,
        events=events, needs=lambda p: count_nodes(p["cond"], "subq") + count_nodes(p["cond"], "sub") > 0 and _the_ok(p),
        fix_doms=_the_doms, extra=extra)


CHECKS.update({"C10": check_C10, "C15": check_C15, "C16": check_C16, "C17": check_C17})


# ---------------------------------------------------------------------- C14
def check_C14(tier, seed):
    run = Run("C14", tier, seed)
    quick = tier == "quick"
    run.rule = ("histories: every sequence (to the depth bound) of concrete construction (Base / Mid(inherits the decorator) / "
                "Leaf(undecorated, hand-written __init__), and Own(hand-written __new__) / OwnSub(undecorated); positional, "
                "keyword, default arguments), symbolic construction, rule "
                "inference of 0-2 instances, registry clearing and no-domain queries at every level of the hierarchy, ending "
                "in a query; exported by TLC and replayed, plus random walks; TLC computes the expected registry contents; "
                "non-trivial = final query returns a proper, non-empty subset of everything constructed")
    run.assumptions = ["a no-domain variable is evaluated once (it may be declared at any earlier point of the history)",
                       "objects are identified by the order of their concrete construction (harness log)"]
    cases = []
    for hier in ("dataclass", "ownnew"):
        run.mc("Registry", "histories-" + hier, constants=dict(MaxLen=4 if quick else 5, Hier=hier),
               invariants=("IndicesUnique", "SubtypeMonotone"), properties=("SymbolicIsInert",), constraint="Bound", view="View")
        behs = run.export("Registry", "export-" + hier, "BEH", constants=dict(MaxLen=3 if quick else 4, Hier=hier),
                          invariants=("Export",), constraint="Bound", count=False)
        behs += run.export("Registry", "walks-" + hier, "BEH", constants=dict(MaxLen=9 if quick else 14, Hier=hier),
                           invariants=("Export",), constraint="Bound", simulate=600 if quick else 20000,
                           depth=10 if quick else 15, count=False)
        cases += [{"id": len(cases) + k + 1, "family": "registry", "hier": hier, "evs": b} for k, b in enumerate(behs)]
    traces = run.replay(cases)
    rej = run.validate("TraceRegistry", traces)
    by_id = {c["id"]: c for c in cases}
    for t in traces:
        if t["id"] in rej:
            run.violation(by_id[t["id"]], t, rej[t["id"]], family="registry")
            continue
        last = t["evs"][-1]
        total = sum(1 for e in t["evs"] if e["op"] == "construct") + sum(len(e["got"]) for e in t["evs"] if e["op"] == "infer")
        if last["op"] in ("query", "evalvar") and 0 < len(last["res"]) < total:
            run.nontrivial.add(digest([[e["op"], e["cls"], e["style"], e["n"], e["T"]] for e in t["evs"]]))
    run.samples = [{"history": [[e["op"], e["cls"], e["style"], e["n"], e["T"]] for e in t["evs"]],
                    "observed": [e.get("res") if e["op"] == "query" else e.get("got") if e["op"] == "infer" else None
                                 for e in t["evs"]]} for t in traces[-2:]]
    return run.finish()


CHECKS["C14"] = check_C14


# ---------------------------------------------------------------------- C13
def mk_term_query(p, doms, **kw):
    q = {"vars": [dict(v, dom=doms[i]) for i, v in enumerate(p["vars"])], "flats": [], "bound": [], "desc": p["desc"],
         "quant": "an", "sel": p["sel"], "cond": p["cond"], "varkeys": list(range(1, len(p["vars"]) + 1))}
    q.update(kw)
    return q


def check_C13(tier, seed):
    run = Run("C13", tier, seed)
    quick = tier == "quick"
    rng = random.Random(seed)
    run.rule = ("terms: class A with every subset of the fields n, m, s, ref given (constants incl. 0 and '', a variable, a "
                "nested term with keyword / positional fields), by keyword or with the signature prefix positional after the "
                "domain; each built in predicate form and in explicit form (let + one equality per field), both judged against "
                "the denotation and against each other; typed variables Base/Mid/Leaf over domains mixing Base, Mid, Leaf "
                "(undecorated subclass) and a foreign class, declared with let, T(From(d)), a term, several declarations over "
                "one list or sharing one From instance; a class with a keyword-only field between two positional ones "
                "(field order differs from constructor order); non-trivial = result neither empty nor the whole type-filtered domain")
    run.assumptions = QUERY_ASSUMPTIONS
    qc = QueryCheck(run)
    fprogs = run.export("GenTerm", "fields", "PROG", constants=dict(Part="fields"), invariants=("Export", "PositionalIsPrefix"))
    tprogs = run.export("GenTerm", "types", "PROG", constants=dict(Part="types"), invariants=("Export", "PositionalIsPrefix"))
    reps = 3 if quick else 25
    for p in fprogs:
        for _ in range(reps):
            W = datasets.random_world(rng, rng.randint(3, 6))
            doms = datasets.domains_for(rng, W, len(p["vars"]), shared=rng.random() < 0.3, maxdom=5)
            q1 = mk_term_query(p, doms)
            q2 = mk_term_query(p, doms, build="explicit")
            qc.add(W, [q1, q2], [drain_ev(1), drain_ev(2, eqto=1), drain_ev(1, eqto=1)])
    # a class whose field order differs from its constructor's parameter order (a keyword-only field in between)
    kprogs = run.export("GenTerm", "kwonly", "PROG", constants=dict(Part="kwonly"), invariants=("Export", "PositionalIsPrefix"))
    for p in kprogs:
        for _ in range(reps * 2):
            n = rng.randint(3, 7)
            W = {"objs": [{"cls": "K", "f": {"a": datasets.iv(rng.choice([0, 1])), "w": datasets.iv(rng.choice([0, 1, 2])),
                                             "b": datasets.iv(rng.choice([0, 1, 2]))}} for _ in range(n)]}
            dom = rng.sample(range(1, n + 1), rng.randint(2, n))
            qc.add(W, [mk_term_query(p, [dom]), mk_term_query(p, [dom], build="explicit")],
                   [drain_ev(1), drain_ev(2, eqto=1), drain_ev(1, eqto=1)], tag="kwonly")
    # the supplied domain is itself a query: the variable ranges over that query's solutions
    sprogs = run.export("GenTerm", "subdom", "PROG", constants=dict(Part="subdom"), invariants=("Export",))
    for p in sprogs:
        for _ in range(reps * 3):
            W = datasets.random_world(rng, rng.randint(3, 6))
            dom = datasets.domains_for(rng, W, 1, maxdom=5)
            qc.add(W, [mk_term_query(p, dom)], [drain_ev(1), drain_ev(1, eqto=1), drain_ev(1, eqto=1)], tag="query-as-domain")
    for p in tprogs:
        for _ in range(reps * 4):
            n = rng.randint(3, 7)
            W = {"objs": [{"cls": rng.choice(["Base", "Mid", "Leaf", "Other"]),
                           "f": {"n": datasets.iv(rng.choice([0, 1, 2])), "m": datasets.iv(rng.choice([0, 1, 2]))}}
                          for _ in range(n)]}
            dom = rng.sample(range(1, n + 1), rng.randint(2, n))
            if rng.random() < 0.25:       # a domain without any instance of the variable's type (instances exist elsewhere)
                T = p["vars"][0]["cls"]
                sub = {"Base": ("Base", "Mid", "Leaf"), "Mid": ("Mid", "Leaf"), "Leaf": ("Leaf",)}[T]
                dom = [o for o in dom if W["objs"][o - 1]["cls"] not in sub]
            q1 = mk_term_query(p, [dom])
            variant = rng.random()
            if variant < 0.35:
                # several declarations sharing one From instance / one list: the later ones must see the whole list
                others = [dict(p["vars"][0], cls=c, decl="from", fields=[], fromkey="shared") for c in ("Leaf", "Base", "Mid")]
                rng.shuffle(others)
                qs = []
                for v in others[:2] + [dict(p["vars"][0], fromkey="shared")]:
                    qs.append(mk_term_query(dict(p, vars=[v], cond=p["cond"] if v is not others[0] and v is not others[1] else {"k": "true"}), [dom]))
                for k2, q in enumerate(qs):
                    q["varkeys"] = [k2 + 1]
                qc.add(W, qs, [drain_ev(1), drain_ev(2), drain_ev(3)], share_vars=True, share_froms=True)
            else:
                q2 = mk_term_query(p, [dom], build="explicit")
                qc.add(W, [q1, q2], [drain_ev(1), drain_ev(2, eqto=1), drain_ev(1, eqto=1), drain_ev(2, eqto=1)])

    def nontrivial(t):
        ev = t["evs"][-1]
        q = t["qs"][ev["qi"] - 1]
        if ev.get("exc") == "none" and 0 < len(ev["rows"]) < len(q["vars"][0]["dom"]):
            return digest([q["vars"], q["cond"]])
        return None
    qc.execute(nontrivial)
    return run.finish()


CHECKS["C13"] = check_C13


# ---------------------------------------------------------------------- C11
def check_C11(tier, seed):
    run = Run("C11", tier, seed)
    quick = tier == "quick"
    run.rule = ("rules infer(entity(T(f1=e1, ...), body)) in rule mode: heads over two variables with variables, attribute "
                "expressions (incl. falsy values), constants and None as keyword arguments (classes P, R), bodies = generated "
                "two-variable conditions (joins, disjunctions, negation, zero solutions); every produced instance is logged "
                "as (class, field values by identity, was it new); TLC computes one instance per satisfying assignment; "
                "non-trivial = between 1 and all-but-one assignments satisfy the body")
    run.assumptions = QUERY_ASSUMPTIONS + ["the head mentions every variable of the rule (C11's stated domain)"]
    qc = QueryCheck(run)
    rng = qc.rng
    progs = run.export("GenQuery", "G4-bfs", "PROG", constants=dict(G="G4", NV=2, LeafLimit=10 if quick else 30, MaxLeaves=2,
                                                                      MaxNot=1, NeedNot=False), invariants=("Export", "WellFormed"))
    progs += run.export("GenQuery", "G4-sim", "PROG", constants=dict(G="G4", NV=2, LeafLimit=34, MaxLeaves=4 if quick else 5,
                                                                      MaxNot=2, NeedNot=False),
                        simulate=500 if quick else 8000, depth=12 if quick else 18)
    cap = 2500 if quick else 40000
    if len(progs) > cap:
        progs = _sample(rng, progs, cap)
        run.exhaustive = False
    for p in progs:
        for _ in range(1 if quick else 2):
            # (some worlds hold distinct objects that compare equal: each satisfying assignment gets its own instance)
            W, doms = _world_and_doms(rng, 2, quick, value_equal_p=0.25, prog=p)
            q = {"vars": [{"cls": "A", "dom": doms[0]}, {"cls": "A", "dom": doms[1]}], "flats": [], "bound": [],
                 "desc": "entity", "quant": "infer", "sel": [], "cond": p["cond"], "head": p["head"], "varkeys": [1, 2]}
            qc.add(W, [q], [{"op": "infer", "qi": 1}])
    # histories: an evaluation abandoned after k instances, then full ones - every full evaluation builds one instance per
    # satisfying assignment again (heads whose argument is a sub-query keep state of their own below the head)
    for p in rng.sample(progs, min(len(progs), 400 if quick else 8000)) + \
            [p for p in progs if '"k": "sub"' in json.dumps(p["head"])][:400 if quick else 8000]:
        W, doms = _world_and_doms(rng, 2, quick)
        q = {"vars": [{"cls": "A", "dom": doms[0]}, {"cls": "A", "dom": doms[1]}], "flats": [], "bound": [],
             "desc": "entity", "quant": "infer", "sel": [], "cond": p["cond"], "head": p["head"], "varkeys": [1, 2]}
        qc.add(W, [q], [{"op": "abandon", "qi": 1, "k": rng.randint(1, 2)}, {"op": "infer", "qi": 1}, {"op": "infer", "qi": 1}],
               tag="abandoned-first")

    # bodies that combine conditions on x alone with conditions on y alone (a disjunction over different variable sets: an
    # assignment that satisfies both branches is still one assignment)
    ind = run.export("GenQuery", "G1x-bodies", "PROG", constants=dict(G="G1x", NV=2, LeafLimit=6, MaxLeaves=3, MaxNot=0, NeedNot=False),
                     count=False)
    ind = [p for p in ind if len(normalize(dict(p, vars=[]), 2)["_used"]) == 2]
    allheads = [h for h in {json.dumps(p["head"], sort_keys=True) for p in progs}]
    for _ in range(400 if quick else 8000):
        W, doms = _world_and_doms(rng, 2, quick)
        q = {"vars": [{"cls": "A", "dom": doms[0]}, {"cls": "A", "dom": doms[1]}], "flats": [], "bound": [],
             "desc": "entity", "quant": "infer", "sel": [], "cond": rng.choice(ind)["cond"],
             "head": json.loads(rng.choice(allheads)), "varkeys": [1, 2]}
        qc.add(W, [q], [{"op": "infer", "qi": 1}, {"op": "infer", "qi": 1}], tag="independent-conditions")
    # heads with a sub-query argument over y, bodies over x alone (the body does not bind the argument's variable)
    subheads = [h for h in {json.dumps(p["head"], sort_keys=True) for p in progs} if '"k": "sub"' in h]
    xbodies = run.export("GenQuery", "G1-bodies", "PROG", constants=dict(G="G12", NV=1, LeafLimit=12, MaxLeaves=2, MaxNot=1,
                                                                          NeedNot=False), count=False)
    for _ in range(300 if quick else 6000):
        W, doms = _world_and_doms(rng, 2, quick)
        q = {"vars": [{"cls": "A", "dom": doms[0]}, {"cls": "A", "dom": doms[1]}], "flats": [], "bound": [],
             "desc": "entity", "quant": "infer", "sel": [], "cond": rng.choice(xbodies)["cond"],
             "head": json.loads(rng.choice(subheads)), "varkeys": [1, 2]}
        evs = rng.choice([[{"op": "abandon", "qi": 1, "k": 1}, {"op": "infer", "qi": 1}, {"op": "infer", "qi": 1}],
                          [{"op": "infer", "qi": 1}, {"op": "infer", "qi": 1}],
                          [{"op": "cfg", "caching": False}, {"op": "infer", "qi": 1}, {"op": "infer", "qi": 1}]])
        qc.add(W, [q], evs, tag="sub-query-argument")

    def nontrivial(t):
        ev = [e for e in t["evs"] if e["op"] == "infer"][0]
        if ev.get("exc") == "none" and 0 < len(ev["insts"]) < domain_size(t["qs"][0]):
            return digest([t["qs"][0]["cond"], t["qs"][0]["head"]])
        return None
    qc.execute(nontrivial)
    return run.finish()


CHECKS["C11"] = check_C11


# ---------------------------------------------------------------------- C12
def _tree_shape(t):
    if t["k"] == "nil":
        return "."
    return "(" + _tree_shape(t["ref"]) + "|" + "".join(_tree_shape(x) for x in t["alts"]) + ")"


def check_C12(tier, seed):
    run = Run("C12", tier, seed)
    quick = tier == "quick"
    run.rule = ("rule trees built with Add, `with refinement(c):` and `with alternative(c):` by TLC's builder machine: every "
                "shape with <= MaxNodes branches (base; chains of alternatives; refinements under base, refinements and "
                "alternatives; alternatives under refinements; a second refinement block of one branch) x branch conditions over the base's variables, one tagged "
                "conclusion per branch; each executed over random worlds; TLC computes which conclusion ripple-down rules "
                "prescribe per assignment; non-trivial = distinct (shape, conditions) with >=2 different conclusions firing")
    run.assumptions = QUERY_ASSUMPTIONS + ["branch conditions mention the base's variables only; one conclusion per branch"]
    qc = QueryCheck(run)
    rng = qc.rng
    shapes = set()
    # Layer B: the operator structure rule.py wires while blocks are written, evaluated by the conclusion selectors,
    # equals the ripple-down interpreter for every tree and every valuation of the branch conditions
    run.mc("RuleMech", "wiring", constants=dict(MaxNodes=5 if quick else 7, RefinementRelinks=True, AlternativeClimbsAll=True, WithNext=False, SiblingRefinements=True),
           invariants=("WiredEqualsFire", "ParentsConsistent"), view="View")
    for nv in (1, 2):
        trees = run.export("GenRule", f"trees{nv}", "TREE", constants=dict(MaxNodes=4, NConds=3 if quick else 4, NV=nv,
                                                                              WithNext=False, SiblingRefs=True),
                           invariants=("Export", "SizeOK"))
        trees += run.export("GenRule", f"walk{nv}", "TREE", constants=dict(MaxNodes=6, NConds=6 if nv == 1 else 9, NV=nv, WithNext=False, SiblingRefs=True),
                            invariants=("Export", "SizeOK"), simulate=300 if quick else 6000, depth=14)
        cap = 1500 if quick else 30000
        if len(trees) > cap:
            trees = rng.sample(trees, cap)
            run.exhaustive = False
        for t in trees:
            shapes.add(_tree_shape(t))
            for _ in range(1 if quick else 2):
                W, doms = _world_and_doms(rng, nv, quick)
                q = {"vars": [{"cls": "A", "dom": doms[i]} for i in range(nv)], "flats": [], "bound": [], "desc": "entity",
                     "quant": "an", "sel": [], "cond": {"k": "true"}, "tree": t, "varkeys": list(range(1, nv + 1))}
                qc.add(W, [q], [{"op": "rule", "qi": 1}])

    # beyond C12's stated domain: two-variable trees whose conclusions mention the second variable only (the base condition
    # still joins both: several assignments share their second value), branch conditions incl. disjunctions and a
    # negated conjunction over that variable; worlds with few distinct values so that a value takes part in many matches
    trees = run.export("GenRule", "walk2-second", "TREE", constants=dict(MaxNodes=4, NConds=9, NV=2, WithNext=False, SiblingRefs=True),
                       invariants=("Export", "SizeOK"), simulate=400 if quick else 8000, depth=12, count=False)
    for t in trees:
        for _ in range(1 if quick else 2):
            W = datasets.random_world(rng, rng.randint(4, 7))
            n = len(W["objs"])
            doms = [rng.sample(range(1, n + 1), rng.randint(3, min(n, 5))), rng.sample(range(1, n + 1), rng.randint(1, 3))]
            q = {"vars": [{"cls": "A", "dom": doms[i]} for i in range(2)], "flats": [], "bound": [], "desc": "entity",
                 "quant": "an", "sel": [], "cond": {"k": "true"}, "tree": t, "varkeys": [1, 2], "concl": "second"}
            # C12 speaks of what each assignment produces; where the conclusions do not mention every variable several
            # assignments build the same conclusion and the listed properties do not say how often it is to appear (judged as
            # a set) - a disagreement is reported as an OBSERVATION, not as a violation of C12
            qc.add(W, [q], [{"op": "rule", "qi": 1}], tag="conclusions-on-second-variable",
                   _observe="rule trees whose conclusions do not mention every variable of the base")

    # beyond C12's wording: trees that also contain `with next_rule(c):` branches (always consulted as well).  The
    # wiring model covers them (RuleMech, WithNext) and they are executed and judged like the others, but a disagreement
    # is reported as an OBSERVATION, not as a violation of C12 (the property speaks of refinement and alternative).
    run.mc("RuleMech", "wiring-next", constants=dict(MaxNodes=5 if quick else 6, RefinementRelinks=True, AlternativeClimbsAll=True,
                                                      WithNext=True, SiblingRefinements=False), invariants=("WiredEqualsFire", "ParentsConsistent"), view="View")
    for nv in (1, 2):
        trees = run.export("GenRule", f"next{nv}", "TREE", constants=dict(MaxNodes=3 if quick else 4, NConds=3, NV=nv, WithNext=True, SiblingRefs=False),
                           invariants=("Export", "SizeOK"), count=False)
        trees = [t for t in trees if '"edge": "next"' in json.dumps(t)]
        for t in rng.sample(trees, min(len(trees), 400 if quick else 6000)):
            W, doms = _world_and_doms(rng, nv, quick)
            q = {"vars": [{"cls": "A", "dom": doms[i]} for i in range(nv)], "flats": [], "bound": [], "desc": "entity",
                 "quant": "an", "sel": [], "cond": {"k": "true"}, "tree": t, "varkeys": list(range(1, nv + 1))}
            qc.add(W, [q], [{"op": "rule", "qi": 1}, {"op": "rule", "qi": 1}], _observe="rule trees with next_rule branches")

    def nontrivial(t):
        ev = t["evs"][0]
        if ev.get("exc") == "none" and len({json_tag(i) for i in ev["insts"]}) >= 2:
            return digest(t["qs"][0]["tree"])
        return None

    def json_tag(inst):
        return inst["f"][1]["v"]
    qc.execute(nontrivial)
    run.extra["tree_shapes"] = len(shapes)
    return run.finish()


CHECKS["C12"] = check_C12


# ---------------------------------------------------------------------- C09
AMBIENTS = ["none", "query", "rule", "nested", "symq", "ruleq", "withq"]


def _hier_world(rng, n):
    return {"objs": [{"cls": rng.choice(["Base", "Mid", "Leaf"]),
                      "f": {"n": datasets.iv(rng.choice([0, 1, 2])), "m": datasets.iv(rng.choice([0, 1, 2]))}}
                     for _ in range(n)]}


def check_C09(tier, seed):
    run = Run("C09", tier, seed)
    quick = tier == "quick"
    run.rule = ("every query / rule is built once per ambient mode and evaluated under it: outside any block, inside "
                "symbolic_mode(), inside rule_mode(), inside both nested, inside symbolic_mode(q0) / rule_mode(q0) / `with q0:` "
                "(blocks that also enter another query); quantifiers an (drained), the, infer; programs that "
                "use function predicates, Predicate subclasses, HasType and instance construction in rule heads (G1, G2, G4 "
                "programs filtered for predicates plus HasType programs over a class hierarchy); TLC judges each evaluation "
                "against the denotation and all ambients must agree; user predicates must never observe symbolic mode; "
                "non-trivial = predicate-using program with a non-trivial answer")
    run.assumptions = QUERY_ASSUMPTIONS
    qc = QueryCheck(run)
    rng = qc.rng
    outcomes = set()

    def add(W, q, op):
        qs = [copy.deepcopy(q) for _ in AMBIENTS]
        evs = []
        for k, amb in enumerate(AMBIENTS):
            if op == "drain":
                evs.append(dict(drain_ev(k + 1, eqto=1 if k else 0), ambient=amb))
            else:
                evs.append({"op": op, "qi": k + 1, "ambient": amb})
        if op == "drain":
            # iterator created and advanced outside a block, continued inside one
            for amb in ("query", "rule"):
                qs.append(copy.deepcopy(q))
                evs.append(dict(drain_ev(len(qs), eqto=1), ambient=amb, split=rng.randint(0, 2)))
        qc.add(W, qs, evs)

    for nv in (1, 2):
        progs = _programs(run, nv, quick, sim_quick=1500, sim_full=12000, leaf_quick=16 if nv == 1 else 12, leaf_full=49 if nv == 1 else 34)
        progs = _with_pred(progs)
        cap = 700 if quick else 15000
        if len(progs) > cap:
            progs = _sample(rng, progs, cap)
            run.exhaustive = False
        for p in progs:
            W, doms = _world_and_doms(rng, nv, quick)
            add(W, mk_query(p, doms), "drain")
            # the(...) over small domains
            doms2 = [d[:rng.randint(1, 2)] for d in doms]
            p2 = dict(p)
            if nv == 2:
                p2.update(desc="set_of", sel=[{"k": "var", "i": 1}, {"k": "var", "i": 2}])
            q_the = mk_query(p2, doms2, quant="the")
            if len(q_the["vars"]) == nv:
                add(W, q_the, "the")
    heads = run.export("GenQuery", "G4", "PROG", constants=dict(G="G4", NV=2, LeafLimit=12, MaxLeaves=2, MaxNot=1, NeedNot=False),
                       count=False)
    for p in rng.sample(heads, min(len(heads), 300 if quick else 6000)):
        W, doms = _world_and_doms(rng, 2, quick)
        q = {"vars": [{"cls": "A", "dom": doms[0]}, {"cls": "A", "dom": doms[1]}], "flats": [], "bound": [],
             "desc": "entity", "quant": "infer", "sel": [], "cond": p["cond"], "head": p["head"], "varkeys": [1, 2]}
        add(W, q, "infer")
    # predicates called on constants only (no variable among the arguments), alone and combined with ordinary conditions
    konst = run.export("GenQuery", "G1k", "PROG", constants=dict(G="G1k", NV=1, LeafLimit=11, MaxLeaves=2, MaxNot=1, NeedNot=False),
                       count=False)
    konst = [p for p in konst if count_nodes(p["cond"], "pred") > 0]
    for p in rng.sample(konst, min(len(konst), 120 if quick else 2000)):
        W, doms = _world_and_doms(rng, 1, quick)
        add(W, mk_query(p, doms), "drain")
    # a variable whose domain is a query that uses predicates: an evaluation abandoned inside a block, then full ones
    # inside and outside blocks
    sprogs = run.export("GenTerm", "subdom", "PROG", constants=dict(Part="subdom"), invariants=("Export",), count=False)
    for p in sprogs:
        for _ in range(4 if quick else 40):
            W = datasets.random_world(rng, rng.randint(3, 6))
            dom = datasets.domains_for(rng, W, 1, maxdom=5)
            amb = rng.choice(["query", "rule", "symq"])
            qc.add(W, [mk_term_query(p, dom)],
                   [{"op": "partial", "qi": 1, "k": 1, "how": rng.choice(["close", "drop"]), "ambient": amb},
                    dict(drain_ev(1), ambient="none"), dict(drain_ev(1, eqto=2), ambient=amb)], tag="query-as-domain")
    # HasType over a hierarchy
    x = {"k": "var", "i": 1}
    for _ in range(150 if quick else 3000):
        W = _hier_world(rng, rng.randint(2, 6))
        dom = list(range(1, len(W["objs"]) + 1))
        ht = {"k": "hastype", "e": x, "T": rng.choice(["Mid", "Leaf", "Base"])}
        leaf = {"k": "cmp", "op": rng.choice(["ge", "eq", "lt"]), "l": {"k": "attr", "e": x, "a": "n"}, "r": {"k": "lit", "v": datasets.iv(1)}}
        cond = rng.choice([ht, {"k": "not", "c": ht, "form": "fn"}, {"k": "and", "l": leaf, "r": ht, "form": "fn"},
                           {"k": "or", "l": ht, "r": leaf, "form": "fn"}])
        q = {"vars": [{"cls": "Base", "dom": dom}], "flats": [], "bound": [], "desc": "entity", "quant": "an", "sel": [x],
             "cond": cond, "varkeys": [1]}
        add(W, q, "drain")

    def nontrivial(t):
        ev = t["evs"][0]
        q = t["qs"][0]
        outcomes.add(ev["op"])
        if ev.get("exc") != "none":
            return None
        if ev["op"] == "drain" and 0 < len(ev["rows"]) < domain_size(q):
            return digest(["drain", q["cond"], q["sel"]])
        if ev["op"] == "the":
            return digest(["the", q["cond"], ev["out"]])
        if ev["op"] == "infer" and 0 < len(ev["insts"]) < domain_size(q):
            return digest(["infer", q["cond"], q["head"]])
        return None
    qc.execute(nontrivial)
    return run.finish()


CHECKS["C09"] = check_C09


# ---------------------------------------------------------------------- C18
def check_C18(tier, seed):
    run = Run("C18", tier, seed)
    quick = tier == "quick"
    run.rule = ("for every generated program (G1, G2, G3-variable joins) TLC derives the rewritten variants - operands of "
                "and_/or_ swapped everywhere, comparisons mirrored (a < b as b > a, literal on the other side), "
                "in_/contains and function/operator forms toggled, chains re-associated, flattened into one and_/or_ call, "
                "conjuncts passed as several conditions to entity/set_of, and a composition - and the harness adds a "
                "permuted domain, a reversed declaration order and a permuted selection list; every variant is judged against "
                "the denotation and must return the row set of the original; TLC also model-checks that each rewrite preserves "
                "the denotation (RewriteCheck); non-trivial = original answer neither empty nor everything")
    run.assumptions = QUERY_ASSUMPTIONS
    qc = QueryCheck(run)
    rng = qc.rng
    run.mc("RewriteCheck", "sound", constants=dict(G="G12", NV=2, LeafLimit=10 if quick else 12, MaxLeaves=2 if quick else 3, MaxNot=1,
                                                    NeedNot=False), invariants=("RewritesSound",))
    for nv in (1, 2, 3):
        full = 49 if nv == 1 else (34 if nv == 2 else 43)
        progs = run.export("GenQuery", f"G{nv}-rw-bfs", "PROGRW", constants=dict(
            G="G12", NV=nv, LeafLimit=10 if quick else 20, MaxLeaves=2, MaxNot=1, NeedNot=False), invariants=("ExportRW",), count=False)
        progs += run.export("GenQuery", f"G{nv}-rw-sim", "PROGRW", constants=dict(
            G="G12", NV=nv, LeafLimit=full, MaxLeaves=4 if quick else 6, MaxNot=2, NeedNot=False), invariants=("ExportRW",),
            simulate=500 if quick else 8000, depth=14 if quick else 22)
        cap = 600 if quick else 12000
        if len(progs) > cap:
            progs = _sample(rng, progs, cap)
            run.exhaustive = False
        if nv == 2:
            # left-deep chains of four conditions (operators nested under operators) with their rewritten variants
            deep = run.export("GenQuery", "G2n-rw", "PROGRW", constants=dict(G="G2n", NV=2, LeafLimit=3 if quick else 5, MaxLeaves=4,
                                                                            MaxNot=0, NeedNot=False),
                              invariants=("ExportRW",), count=False)
            deep = [pr for pr in deep if count_nodes(pr["orig"]["cond"], "cmp") == 4]
            progs = progs + rng.sample(deep, min(len(deep), 500 if quick else 6000))
        for pr in progs:
            p = pr["orig"]
            W, doms = _world_and_doms(rng, nv, quick)
            q0 = mk_query(p, doms)
            qs, evs = [q0], [drain_ev(1)]
            seen = {digest(p["cond"])}
            for v in pr["variants"]:
                if digest(v) in seen:
                    continue
                seen.add(digest(v))
                qs.append(mk_query(dict(p, cond=v), doms))
                evs.append(drain_ev(len(qs), eqto=1))
            # permuted domains
            doms2 = [rng.sample(d, len(d)) for d in doms]
            qs.append(mk_query(p, doms2))
            evs.append(drain_ev(len(qs), eqto=1))
            # reversed declaration order
            qd = mk_query(p, doms)
            qd["declare"] = list(range(len(qd["vars"]), 0, -1))
            qs.append(qd)
            evs.append(drain_ev(len(qs), eqto=1))
            # the shorthand an(x, c...) / an([x, y], c...) instead of an(entity(...)) / an(set_of(...))
            if all(s["k"] in ("var", "attr") for s in p["sel"]) and p["cond"]["k"] != "true":
                qs.append(mk_query(p, doms, short=True))
                evs.append(drain_ev(len(qs), eqto=1))
            # permuted selection (judged against the denotation only: the columns differ)
            if p["desc"] == "set_of" and len(p["sel"]) > 1:
                qs.append(mk_query(dict(p, sel=list(reversed(p["sel"]))), doms))
                evs.append(drain_ev(len(qs)))
            qc.add(W, qs, evs)
    qc.execute(_nontrivial_rows)
    return run.finish()


CHECKS["C18"] = check_C18
