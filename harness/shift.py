"""C19 metamorphic twin: shift every value of a world and of a program away
from the falsy member of its sort while keeping every comparison's outcome.
A purely syntactic/data transformation of inputs (no expected results)."""
from __future__ import annotations

import copy

from .syntax import walk

SHIFT = 3
PREFIX = 3            # letter 'c'
SENTINEL = 9
NONE_AS = 99


class NotShiftable(Exception):
    pass


def shift_value(v, field=None):
    t = v["t"]
    if t == "int":
        return {"t": "int", "v": v["v"] + SHIFT}
    if t == "none":
        return {"t": "int", "v": NONE_AS}
    if t == "str":
        return {"t": "str", "v": [PREFIX] + list(v["v"])}
    if t == "list":
        if v["v"] and v["v"][0]["t"] == "obj" or field in ("refs", "pairs"):
            return copy.deepcopy(v)
        return {"t": "list", "v": [{"t": "int", "v": SENTINEL}] + [shift_value(x) for x in v["v"]]}
    if t == "tuple":
        return {"t": "tuple", "v": [shift_value(x) for x in v["v"]]}
    if t == "obj":
        return dict(v)
    if t == "dict":
        return {"t": "dict", "v": [[k, shift_value(x)] for k, x in v["v"]]}
    raise NotShiftable(t)


def shift_lit(v):
    if v["t"] == "list":       # literal containers keep their length
        return {"t": "list", "v": [shift_value(x) for x in v["v"]]}
    return shift_value(v)


def shift_program(q):
    q = copy.deepcopy(q)

    def f(n):
        k = n.get("k")
        if k == "truth":
            raise NotShiftable("truth")       # condition position: truthiness is the meaning
        if k == "pred" and n["p"] in ("p_pos", "p_qge2"):      # truthiness / an absolute threshold is the meaning
            raise NotShiftable(n["p"])
        if k == "mcall":
            if n["m"] in ("is_small", "count"):
                raise NotShiftable(n["m"])
            if n["m"] == "n_ge":
                n["arg"] = shift_value(n["arg"])
            elif n["m"] == "startswith":
                n["arg"] = shift_value(n["arg"])
        if k == "lit":
            n["v"] = shift_lit(n["v"])
    walk(q["cond"], f)
    for s in q["sel"]:
        if s["k"] != "var":
            raise NotShiftable("selection")
    return q


def shift_world(W, offset):
    """Shifted copy of every object; object references point into the copy."""
    objs = []
    for o in W["objs"]:
        f = {}
        for name, v in o["f"].items():
            nv = shift_value(v, name)
            f[name] = nv
        objs.append({"cls": o["cls"], "f": f})

    def reloc(n):
        if n.get("t") == "obj":
            n["v"] += offset
    walk(objs, reloc)
    return objs
