"""./check Cxx --replay <file>: re-execute a stored violating case on the current
tree and have TLC judge the new recording."""
from __future__ import annotations

import json
import shutil
import tempfile

from . import replay, tlc

MODULE_OF_FAMILY = {"query": "TraceQuery", "mode": "TraceMode", "index": "TraceIndex", "lazy": "TraceLazy",
                    "registry": "TraceRegistry", "rule": "TraceRule"}


def replay_file(prop, path):
    r = json.load(open(path))
    case = r["case"]
    family = r.get("family", case.get("family", "query"))
    trace = replay.run_case(case)
    if "harness_exc" in trace:
        raise tlc.MachineryError(trace["harness_exc"])
    scratch = tempfile.mkdtemp(prefix="eqlverif-replay-")
    try:
        slim = {k: v for k, v in trace.items() if not k.startswith("_") and k not in ("build_exc", "build_tb", "family")}
        rej, n = tlc.validate(MODULE_OF_FAMILY[family], [slim], scratch, shards=1,
                               constants=dict(CODE, B3Judge="obs") if family == "query" else None)
    finally:
        shutil.rmtree(scratch, ignore_errors=True)
    print(json.dumps(trace.get("evs", trace))[:2000])
    if rej:
        print(f"VIOLATION property={prop} replay={path}   [" +
              "; ".join(f"event {x['at']}: {x['clause']}" for x in rej) + "]")
        return 1
    print(f"{prop}: replayed case is accepted by the specification on the current tree")
    return 0
