"""The Python side of the specification's world: @symbol classes, user
predicates, value encoding.  Nothing here computes an expected result; it only
builds inputs from their JSON description and encodes what the API returned.

spec/EQLSem.tla (Supers, Method, PredHolds) mirrors the definitions below.
"""
from __future__ import annotations

from dataclasses import dataclass, field
from typing import Any

from entity_query_language import symbol, predicate, Predicate

LETTERS = "_abc"          # str <-> Seq(Nat): letter k is LETTERS[k]


@symbol
@dataclass(eq=False)
class A:
    n: Any = 0
    m: Any = 0
    s: Any = ""
    items: Any = field(default_factory=list)
    ref: Any = None
    d: Any = field(default_factory=dict)
    t: Any = (0, 0)
    o: Any = None
    refs: Any = field(default_factory=list)
    pairs: Any = field(default_factory=list)

    def n_ge(self, k=1):
        PredicatePlan.tick()          # user code: counted, and may raise when the fault plan says so
        return self.n >= k

    def n_plus(self, k=1):         # the default is never used by a program: an explicit 0 must not fall back to it
        PredicatePlan.tick()
        return self.n + k

    def is_small(self):
        PredicatePlan.tick()
        return self.n < 2

    def items_copy(self):          # a collection that is built on access (a new list object at every call)
        return list(self.items) + []


@symbol
@dataclass(eq=False)
class B:
    n: Any = 0
    m: Any = 0
    s: Any = ""
    items: Any = field(default_factory=list)
    ref: Any = None
    d: Any = field(default_factory=dict)
    t: Any = (0, 0)
    o: Any = None
    refs: Any = field(default_factory=list)
    pairs: Any = field(default_factory=list)

    def n_ge(self, k=1):
        PredicatePlan.tick()          # user code: counted, and may raise when the fault plan says so
        return self.n >= k

    def n_plus(self, k=1):         # the default is never used by a program: an explicit 0 must not fall back to it
        PredicatePlan.tick()
        return self.n + k

    def is_small(self):
        PredicatePlan.tick()
        return self.n < 2

    def items_copy(self):          # a collection that is built on access (a new list object at every call)
        return list(self.items) + []


VALUE_FIELDS = ("n", "m", "s", "items", "t", "o", "d")


@dataclass(eq=False)
class AV(A):              # distinct objects that compare equal (value equality, as a plain @dataclass has it)
    def __eq__(self, other):
        return isinstance(other, A) and all(getattr(self, f) == getattr(other, f) for f in VALUE_FIELDS)

    def __hash__(self):
        return hash((self.n, self.m, self.s))


@symbol
@dataclass(eq=False)
class Base:
    n: Any = 0
    m: Any = 0


@dataclass(eq=False)
class Mid(Base):          # decorated through inheritance only
    pass


class Leaf(Mid):          # undecorated, hand-written __init__
    def __init__(self, n=0, m=0):
        super().__init__(n, m)
        self.init_ran = True


@symbol
class Own:                # hand-written __new__ (and __init__): constructed through its own allocator
    def __new__(cls, n=0, m=0):
        inst = object.__new__(cls)
        inst.made_by_own_new = True
        return inst

    def __init__(self, n=0, m=0):
        self.n = n
        self.m = m


class OwnSub(Own):        # undecorated subclass of it
    pass


@dataclass(eq=False)
class Other:              # not a symbol at all
    n: Any = 0
    m: Any = 0


@symbol
@dataclass(eq=False)
class P:                  # inferred by rules; three fields for positional-binding checks
    a: Any = None
    b: Any = None
    c: Any = None


@symbol
@dataclass(eq=False)
class PF:                 # inferable class whose instances can be falsy (like a container defining __len__)
    a: Any = None
    b: Any = None
    c: Any = None

    def __bool__(self):
        return bool(self.a)


@symbol
@dataclass(eq=False)
class PD:                 # inferable class with a non-None default: a field given as None must stay None
    a: Any = None
    b: Any = None
    c: Any = "c"


@symbol
@dataclass(eq=False)
class PC:                 # inferable class whose instances are callable (a command / formatter style object)
    a: Any = None
    b: Any = None
    c: Any = None

    def __call__(self):
        return "called"


@symbol
@dataclass(eq=False)
class K:                  # a keyword-only field between two positional ones: __init__(self, a=0, b=0, *, w=7)
    a: Any = 0
    w: Any = field(default=7, kw_only=True)
    b: Any = 0


@symbol
@dataclass(eq=False)
class R:                  # second inferable class
    a: Any = None
    b: Any = None


CLASSES = {c.__name__: c for c in (A, B, Base, Mid, Leaf, Other, P, PF, PD, PC, R, K, Own, OwnSub)}


class Boom(Exception):
    """Raised by a user predicate when the fault plan says so."""


class PredicatePlan:
    """Counts calls of user predicates; raises Boom at the planned call."""
    calls = 0
    raise_at = 0          # 0 = never
    modes = []            # in_symbolic_mode() seen by each call

    @classmethod
    def reset(cls, raise_at=0):
        cls.calls = 0
        cls.raise_at = raise_at
        cls.modes = []

    @classmethod
    def tick(cls):
        from entity_query_language.symbolic import in_symbolic_mode
        cls.calls += 1
        cls.modes.append(in_symbolic_mode())
        if cls.raise_at and cls.calls == cls.raise_at:
            raise Boom()


@predicate
def p_lt(x, y):
    PredicatePlan.tick()
    return x < y


@predicate
def p_eq(x, y):
    PredicatePlan.tick()
    return x == y


@predicate
def p_pos(x):
    PredicatePlan.tick()
    return x > 0


@predicate
def p_true(x):
    PredicatePlan.tick()
    return True


@symbol
@dataclass(eq=False)
class _QA:                # classes of their own for the query that p_qge2 runs inside its body
    n: int = 0


@dataclass(eq=False)
class _QB(_QA):
    pass


_QOBJS = [_QA(1), _QB(2), _QA(0)]


@predicate
def p_qge2(v):
    """A user predicate whose body builds and evaluates a query of its own: is there a _QB with n <= v, i.e. v >= 2."""
    from entity_query_language import let, an, entity, symbolic_mode, HasType
    PredicatePlan.tick()
    with symbolic_mode():
        p = let(_QA, domain=_QOBJS)
        q = an(entity(p, HasType(p, _QB), p.n <= v))
    return len(list(q.evaluate())) > 0


PREDICATES = {"p_lt": p_lt, "p_eq": p_eq, "p_pos": p_pos, "p_true": p_true, "p_qge2": p_qge2}


@dataclass(eq=False)
class PLt(Predicate):
    x: Any
    y: Any

    def __call__(self):
        PredicatePlan.tick()
        return self.x < self.y


@dataclass(eq=False)
class PPos(Predicate):
    x: Any

    def __call__(self):
        PredicatePlan.tick()
        return self.x > 0


PREDICATE_CLASSES = {"p_lt": PLt, "p_pos": PPos}


# ---------------------------------------------------------------- values
def decode(v, heap):
    """JSON tagged value -> Python value (objects by heap index, 1-based)."""
    t = v["t"]
    if t == "int":
        return int(v["v"])
    if t == "bool":
        return bool(v["v"])
    if t == "none":
        return None
    if t == "str":
        return "".join(LETTERS[k] for k in v["v"])
    if t == "list":
        return [decode(x, heap) for x in v["v"]]
    if t == "tuple":
        return tuple(decode(x, heap) for x in v["v"])
    if t == "dict":
        return {decode(k, heap): decode(x, heap) for k, x in v["v"]}
    if t == "obj":
        return heap[v["v"] - 1]
    raise ValueError(t)


def encode(x, index_of):
    """Python value -> JSON tagged value; index_of maps id(obj) -> heap index."""
    if isinstance(x, bool):
        return {"t": "bool", "v": x}
    if isinstance(x, int):
        return {"t": "int", "v": x}
    if x is None:
        return {"t": "none", "v": 0}
    if isinstance(x, str):
        return {"t": "str", "v": [LETTERS.index(ch) for ch in x]}
    if isinstance(x, list):
        return {"t": "list", "v": [encode(y, index_of) for y in x]}
    if isinstance(x, tuple):
        return {"t": "tuple", "v": [encode(y, index_of) for y in x]}
    if isinstance(x, dict):
        return {"t": "dict", "v": [[encode(k, index_of), encode(y, index_of)] for k, y in x.items()]}
    if id(x) in index_of:
        return {"t": "obj", "v": index_of[id(x)]}
    return {"t": "alien", "v": type(x).__name__}


def build_world(W):
    """Construct the heap described by W = {"objs": [{"cls", "f": {...}}]}.
    Objects may reference earlier or later objects through obj-valued fields;
    those are patched in after construction."""
    heap = []
    for o in W["objs"]:
        cls = CLASSES[o["cls"]]
        if W.get("eq") == "value" and cls is A:      # the same world with value equality on its objects
            cls = AV
        heap.append(cls())
    for o, inst in zip(W["objs"], heap):
        for name, v in o["f"].items():
            setattr(inst, name, decode(v, heap))
    index_of = {id(inst): k + 1 for k, inst in enumerate(heap)}
    return heap, index_of
