"""Purely syntactic helpers on the JSON abstract syntax (no semantics)."""
from __future__ import annotations

import copy
import hashlib
import json


def walk(node, fn):
    """Call fn on every dict node of an AST."""
    if isinstance(node, dict):
        fn(node)
        for v in node.values():
            walk(v, fn)
    elif isinstance(node, list):
        for v in node:
            walk(v, fn)


def mentioned_vars(q):
    seen = set()

    def f(n):
        if n.get("k") in ("var", "sub") and "i" in n:
            seen.add(n["i"])
    walk(q["sel"], f)
    walk(q["cond"], f)
    walk(q.get("flats", []), f)
    walk(q.get("head", {}), f)
    walk([v.get("fields", []) for v in q.get("vars", [])], f)
    return seen


def normalize(q, nv_declared):
    """Drop declared variables the program never mentions and renumber the
    rest (a variable that is neither selected nor constrained is not part of
    the query)."""
    q = copy.deepcopy(q)
    used = sorted(mentioned_vars(q))
    ren = {old: new + 1 for new, old in enumerate(used)}

    def f(n):
        if n.get("k") in ("var", "sub") and "i" in n:
            n["i"] = ren[n["i"]]
    walk(q["sel"], f)
    walk(q["cond"], f)
    walk(q.get("flats", []), f)
    walk(q.get("head", {}), f)
    def g(n):
        if n.get("k") == "forall":
            n["uv"] = [ren[i] for i in n["uv"]]
    walk(q["cond"], g)
    q["bound"] = [ren[i] for i in q.get("bound", []) if i in ren]
    q["_used"] = used
    return q


def digest(x):
    return hashlib.sha1(json.dumps(x, sort_keys=True).encode()).hexdigest()[:16]


def count_nodes(c, kind):
    n = [0]

    def f(node):
        if node.get("k") == kind:
            n[0] += 1
    walk(c, f)
    return n[0]
