"""Input data for cases: worlds (heaps of objects) over a small value universe
that contains the falsy member of every sort.  Inputs only - no expected
results are derived here."""
from __future__ import annotations

import random

INTS = [0, 1, 2]
STRS = [[], [1], [1, 2], [2]]                 # "", "a", "ab", "b"
ITEMS = [[], [0], [1, 2], [0, 1], [2, 2]]
TUPS = [[0, 1], [1, 0], [2, 2], [0, 0]]
OPTS = [("none", 0), ("int", 0), ("int", 1)]


def iv(n):
    return {"t": "int", "v": n}


def obj_fields(rng, nobj, truthy_only=False, cls_of=None):
    ints = [1, 2] if truthy_only else INTS
    strs = STRS[1:] if truthy_only else STRS
    items = ITEMS[1:] if truthy_only else ITEMS
    nref = rng.randint(0, 2)
    return {
        "n": iv(rng.choice(ints)),
        "m": iv(rng.choice(ints)),
        "s": {"t": "str", "v": rng.choice(strs)},
        "items": {"t": "list", "v": [iv(k) for k in rng.choice(items)]},
        "t": {"t": "tuple", "v": [iv(k) for k in rng.choice(TUPS)]},
        "o": (lambda o: {"t": o[0], "v": o[1]})(rng.choice(OPTS[2:] if truthy_only else OPTS)),
        "ref": {"t": "obj", "v": rng.randint(1, nobj)},
        "refs": {"t": "list", "v": [{"t": "obj", "v": rng.randint(1, nobj)} for _ in range(nref)]},
        "pairs": {"t": "list", "v": [{"t": "tuple", "v": [iv(k) for k in rng.choice(TUPS)]} for _ in range(rng.randint(0, 2))]},
        "d": {"t": "dict", "v": [[{"t": "str", "v": [1]}, iv(rng.choice(ints))], [{"t": "str", "v": [2]}, iv(rng.choice(ints))]]},
    }


def random_world(rng, nobj, classes=("A",), truthy_only=False):
    return {"objs": [{"cls": rng.choice(classes), "f": obj_fields(rng, nobj, truthy_only)} for _ in range(nobj)]}


def covering_world(nobj=9, cls="A"):
    """Deterministic world in which (n, m) runs through every pair of the int
    universe; the other fields cycle through their universes."""
    objs = []
    for k in range(nobj):
        n, m = INTS[k % 3], INTS[(k // 3) % 3]
        objs.append({"cls": cls, "f": {
            "n": iv(n), "m": iv(m),
            "s": {"t": "str", "v": STRS[k % len(STRS)]},
            "items": {"t": "list", "v": [iv(j) for j in ITEMS[k % len(ITEMS)]]},
            "t": {"t": "tuple", "v": [iv(j) for j in TUPS[k % len(TUPS)]]},
            "o": {"t": OPTS[k % 3][0], "v": OPTS[k % 3][1]},
            "ref": {"t": "obj", "v": (k * 2 + 1) % nobj + 1},
            "refs": {"t": "list", "v": [{"t": "obj", "v": (k + j) % nobj + 1} for j in range(k % 3)]},
            "pairs": {"t": "list", "v": [{"t": "tuple", "v": [iv(j) for j in TUPS[(k + j2) % len(TUPS)]]} for j2 in range(k % 3)]},
            "d": {"t": "dict", "v": [[{"t": "str", "v": [1]}, iv(m)], [{"t": "str", "v": [2]}, iv(n)]]},
        }})
    return {"objs": objs}


def domains_for(rng, W, nv, shared=False, maxdom=4):
    """Pick a domain (sequence of distinct heap indices) per variable."""
    n = len(W["objs"])
    doms = []
    for i in range(nv):
        if shared and doms:
            doms.append(list(doms[0]))
            continue
        k = rng.randint(1, min(maxdom, n))
        doms.append(rng.sample(range(1, n + 1), k))
    return doms


def value_equal_world(rng, nobj):
    """Distinct objects several of which compare equal: their value fields are copies of one another (the object
    references differ); the world asks for value equality on its objects."""
    import copy
    W = random_world(rng, nobj)
    for k in range(1, nobj):
        if rng.random() < 0.6:
            src = W["objs"][rng.randrange(k)]["f"]
            for name in ("n", "m", "s", "items", "t", "o", "d"):
                W["objs"][k]["f"][name] = copy.deepcopy(src[name])
    W["eq"] = "value"
    return W


def rooms_world(rng):
    """A world shaped like "the rooms that have a worker who masters every requirement": objects 1-3 are ranged over by
    the free variable x, 4-7 by the universal variable u (distinct m, n >= 1 mostly), 8-11 by the second free variable y
    whose ref points at one of the x objects and whose items hold some of the u.m / u.n values.  Returns (W, doms)."""
    W = random_world(rng, 11)
    o = W["objs"]
    ms = [0, 1, 2, rng.choice([0, 1, 2])]
    rng.shuffle(ms)
    for k in range(3, 7):
        o[k]["f"]["m"] = iv(ms[k - 3])
        o[k]["f"]["n"] = iv(rng.choice([1, 1, 2, 0]))
    for k in range(7, 11):
        o[k]["f"]["ref"] = {"t": "obj", "v": rng.randint(1, 3)}
        items = [v for v in (0, 1, 2) if rng.random() < 0.65]
        o[k]["f"]["items"] = {"t": "list", "v": [iv(v) for v in items]}
        o[k]["f"]["n"] = iv(rng.choice([1, 2, 2]))
    doms = [rng.sample([1, 2, 3], rng.randint(2, 3)), rng.sample([4, 5, 6, 7], rng.randint(3, 4)),
            rng.sample([8, 9, 10, 11], rng.randint(2, 4))]
    return W, doms


def rooms_covering_world(rng):
    """The textbook instance of "rooms that have a worker who masters every needed requirement": rooms 1-3; requirements
    4-7 (m = tag 0, 1, 2 needed i.e. n = 1, and one not needed, n = 0); workers 8-11: room 1 has every needed tag
    mastered but by different workers, the worker of room 2 lacks one tag, the worker of room 3 masters all.
    Domain orders are permuted."""
    W = random_world(rng, 11)
    o = W["objs"]
    for k, (n, m) in enumerate([(1, 0), (1, 1), (1, 2), (0, 1)]):
        o[3 + k]["f"]["n"], o[3 + k]["f"]["m"] = iv(n), iv(m)
    for k, (room, items) in enumerate([(1, [0]), (1, [1, 2]), (2, [0, 1]), (3, [0, 1, 2])]):
        o[7 + k]["f"]["ref"] = {"t": "obj", "v": room}
        o[7 + k]["f"]["items"] = {"t": "list", "v": [iv(v) for v in items]}
        o[7 + k]["f"]["n"] = iv(2)
    for k in range(3):
        o[k]["f"]["n"] = iv(rng.choice([1, 2]))
    doms = [rng.sample([1, 2, 3], 3), rng.sample([4, 5, 6, 7], 4), rng.sample([8, 9, 10, 11], 4)]
    return W, doms
