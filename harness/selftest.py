"""./check Cxx --selftest : demonstrate that the trace specifications bind - an
honest recording is accepted, and the same recording with one observation
corrupted is rejected with the clause that names the corruption."""
from __future__ import annotations

import copy
import random

from . import datasets, replay, tlc
from .pipeline import Run

X = {"k": "var", "i": 1}


def _q(cond, dom, **kw):
    q = {"vars": [{"cls": "A", "dom": dom}], "flats": [], "bound": [], "desc": "entity", "quant": "an", "sel": [X],
         "cond": cond, "varkeys": [1]}
    q.update(kw)
    return q


def _expect(run, module, trace, corrupt, clause, constants=None):
    """Validate `trace` (must be accepted) and corrupt(trace) (must be rejected with `clause`)."""
    def judge(t):
        t = dict(t, id=1)
        if constants:
            return run.validate_with(module, [t], constants, count=False)
        return run.validate(module, [t], strip=("family",), count=False)
    ok = judge(trace)
    if ok:
        raise tlc.MachineryError(f"selftest: honest {module} trace rejected: {ok}")
    bad = copy.deepcopy(trace)
    corrupt(bad)
    rej = judge(bad)
    got = [r["clause"] for rs in rej.values() for r in rs]
    if clause not in got:
        raise tlc.MachineryError(f"selftest: corrupted {module} trace should be rejected with {clause}, got {got}")
    return clause


def selftest(prop):
    run = Run(prop, "quick", 0)
    rng = random.Random(5)
    done = []
    try:
        W = datasets.covering_world(6)
        cond = {"k": "cmp", "op": "ge", "l": {"k": "attr", "e": X, "a": "n"}, "r": {"k": "lit", "v": datasets.iv(1)}}
        case = {"id": 1, "family": "query", "W": W, "qs": [_q(cond, [1, 2, 3, 4, 5, 6])],
                "evs": [{"op": "drain", "qi": 1, "eqto": 0, "eqoff": 0, "eqbag": 0}]}
        t = replay.run_case(case)
        done.append(_expect(run, "TraceQuery", t, lambda b: b["evs"][0]["rows"].pop(), "rows.missing"))
        done.append(_expect(run, "TraceQuery", t, lambda b: b["evs"][0]["rows"].append([{"t": "obj", "v": 1}]), "rows.extra"))
        done.append(_expect(run, "TraceQuery", t, lambda b: b["evs"][0]["rows"].reverse(), "rows.order"))
        done.append(_expect(run, "TraceQuery", t, lambda b: b["evs"][0].update(mutated=True), "user-data.mutated"))
        # the
        the_case = dict(case, qs=[_q(cond, [2, 1], quant="the")], evs=[{"op": "the", "qi": 1}])
        tt = replay.run_case(the_case)
        done.append(_expect(run, "TraceQuery", tt, lambda b: b["evs"][0].update(out="NoSolutionFound"), "the.outcome"))
        # mode
        beh = [{"op": "enter", "kind": "sym", "how": "-", "i": 0}, {"op": "new", "kind": "-", "how": "-", "i": 1},
               {"op": "next", "kind": "-", "how": "-", "i": 1}, {"op": "exit", "kind": "-", "how": "normal", "i": 0},
               {"op": "close", "kind": "-", "how": "-", "i": 1}]
        tm = replay.run_case({"id": 1, "family": "mode", "niter": 2, "nrows": 2, "evs": beh})
        consts = dict(NIter=2, NRows=2, IterHoldsMode=False)
        done.append(_expect(run, "TraceMode", tm, lambda b: b["evs"][4].update(mode="query"), "mode", consts))
        done.append(_expect(run, "TraceMode", tm, lambda b: b["evs"][0].update(sym="instance"), "symbol-construction", consts))
        # lazy
        tl = replay.run_case({"id": 1, "family": "lazy", "W": W, "q": _q(cond, [1, 2, 3, 4]), "ops": ["new", "next", "close", "new", "drain"]})
        done.append(_expect(run, "TraceLazy", tl, lambda b: b["evs"][1]["pulls"].append(3), "pulls.too-many"))
        # registry
        hist = [{"op": "construct", "cls": "Leaf", "style": "kw", "n": 0, "T": "-"},
                {"op": "symconstruct", "cls": "Mid", "style": "kw", "n": 0, "T": "-"},
                {"op": "query", "cls": "-", "style": "-", "n": 0, "T": "Base"}]
        tr = replay.run_case({"id": 1, "family": "registry", "evs": hist})
        done.append(_expect(run, "TraceRegistry", tr, lambda b: b["evs"][2]["res"].clear(), "query.missing"))
        # index
        ti = replay.run_case({"id": 1, "family": "index", "nkeys": 2, "nvals": 2, "lookups": [[1, 0], [1, 2]],
                              "ops": [{"op": "insert", "b": [1, 2], "o": 1}]})
        c2 = dict(NKeys=2, NVals=2, PreferWildcard=False, Judge="ref")
        done.append(_expect(run, "TraceIndex", ti, lambda b: [e for e in b["evs"] if e["op"] == "check"][1].update(res=False),
                            "check.false-negative", c2))
    finally:
        run.abort()
    print(f"{prop} selftest: {len(done)} corruptions rejected with the expected clause: {', '.join(done)}")
    return 0
