"""Execute cases (inputs only) against the library in /repo and record what the
public API returns.  No expected value is computed here: the recorded traces are
judged by TLC against the specification (spec/Trace*.tla)."""
from __future__ import annotations

import json
import os
import sys
import traceback
from multiprocessing import get_context

from entity_query_language.symbolic import (SymbolicExpression, Variable, _symbolic_mode, in_symbolic_mode)
from entity_query_language.cache_data import enable_caching, disable_caching, IndexedCache

from . import world
from .build import QueryBuilder

HITS = {"n": 0}
_orig_retrieve = IndexedCache.retrieve


def _install_hit_counter():
    """Run-time wrapper (harness side, EQL_VERIF=1 only): counts top-level
    retrievals from operator caches so that a run without cache hits cannot
    pass as evidence for cache transparency."""
    if getattr(IndexedCache.retrieve, "_verif", False):
        return
    global _orig_retrieve

    def retrieve(self, assignment=None, cache=None, key_idx=0, result=None, from_index=True):
        if cache is None and from_index:
            HITS["n"] += 1
        return _orig_retrieve(self, assignment, cache, key_idx, result, from_index)

    retrieve._verif = True
    IndexedCache.retrieve = retrieve


if os.environ.get("EQL_VERIF") == "1":
    _install_hit_counter()


class IndexTracer:
    """Records every top-level insert / retrieve / clear of every IndexedCache (operator result caches) while a case
    runs, as index-family histories that TraceIndex can judge against the reference store.  Used only to decide
    whether a rejected query execution is an instance of the known finding on the cache index (call-site scoping)."""

    def __init__(self):
        self.caches = {}
        self.orig = (IndexedCache.insert, IndexedCache.retrieve, IndexedCache.clear)

    def _c(self, cache):
        c = self.caches.get(id(cache))
        if c is None or c["keys"] != list(cache.keys):
            c = {"obj": cache, "keys": list(cache.keys), "vals": [dict() for _ in cache.keys], "evs": []}
            self.caches[id(cache)] = c
        return c

    def _b(self, c, assignment):
        b = []
        for k, key in enumerate(c["keys"]):
            if assignment and key in assignment:
                v = assignment[key]
                vid = getattr(v, "id_", id(v))
                b.append(c["vals"][k].setdefault(vid, len(c["vals"][k]) + 1))
            else:
                b.append(0)
        return b

    def __enter__(self):
        tracer = self
        o_insert, o_retrieve, o_clear = self.orig

        def insert(self, assignment, output, index=True):
            if index and self.keys:
                c = tracer._c(self)
                c["evs"].append({"op": "insert", "b": tracer._b(c, assignment), "o": 2 if output else 1})
            return o_insert(self, assignment, output, index)

        def retrieve(self, assignment=None, cache=None, key_idx=0, result=None, from_index=True):
            if cache is not None or not from_index or not self.keys:
                return o_retrieve(self, assignment, cache, key_idx, result, from_index)
            c = tracer._c(self)
            lk = tracer._b(c, assignment)
            res = list(o_retrieve(self, assignment, cache, key_idx, result, from_index))
            c["evs"].append({"op": "retrieve", "lk": lk, "res": [[tracer._b(c, r), 2 if v else 1] for r, v in res]})
            return iter(res)

        def clear(self):
            if id(self) in tracer.caches:
                tracer.caches[id(self)]["evs"].append({"op": "clear"})
            return o_clear(self)

        IndexedCache.insert, IndexedCache.retrieve, IndexedCache.clear = insert, retrieve, clear
        return self

    def __exit__(self, *a):
        IndexedCache.insert, IndexedCache.retrieve, IndexedCache.clear = self.orig

    def traces(self):
        out = []
        for c in self.caches.values():
            if any(e["op"] == "retrieve" for e in c["evs"]):
                nvals = max([len(v) for v in c["vals"]] + [1])
                out.append({"nkeys": len(c["keys"]), "nvals": nvals, "evs": c["evs"]})
        return out


def reset_library():
    """Bring the process-global state of the library back to its initial
    value; returns what had to be repaired (a leak left by the previous case)."""
    leaked = []
    if _symbolic_mode.get() is not None:
        leaked.append("mode")
        _symbolic_mode.set(None)
    if SymbolicExpression._symbolic_expression_stack_:
        leaked.append("stack")
        SymbolicExpression._symbolic_expression_stack_.clear()
    for c in list(Variable._cache_.values()):
        c.clear()
    Variable._cache_.clear()
    enable_caching()
    world.PredicatePlan.reset()
    return leaked


def exc_name(e):
    return type(e).__name__


def dump_graph(builder):
    """The condition graph the library built for a query, in the shape of spec/EQLMech.tla!Build (Layer B binding)."""
    import operator as _op
    from entity_query_language import symbolic as S
    keys = builder.q.get("varkeys", list(range(1, len(builder.q["vars"]) + 1)))
    var_index = {id(v): keys.index(k) + 1 for k, v in builder.vars.items() if k in keys}
    names = {_op.eq: "eq", _op.ne: "ne", _op.lt: "lt", _op.le: "le", _op.gt: "gt", _op.ge: "ge"}
    pred_names = {"PLt": "p_lt", "PPos": "p_pos"}

    def expr(e):
        if isinstance(e, S.Literal):
            return {"k": "lit", "v": world.encode(next(iter(e._domain_)).value, {})}
        if isinstance(e, S.Attribute):
            return {"k": "attr", "e": expr(e._child_), "a": e._attr_name_}
        if isinstance(e, S.Index):
            return {"k": "idx", "e": expr(e._child_), "key": world.encode(e._key_, {})}
        if isinstance(e, S.Call):
            arg = world.encode(e._args_[0], {}) if e._args_ else \
                (world.encode(e._kwargs_["k"], {}) if e._kwargs_ else {"t": "noarg", "v": 0})
            return {"k": "mcall", "e": expr(e._child_._child_), "m": e._child_._attr_name_, "arg": arg,
                    "kw": bool(e._kwargs_)}
        if isinstance(e, S.Variable) and id(e) in var_index:
            return {"k": "var", "i": var_index[id(e)]}
        return {"k": "other:" + type(e).__name__}

    def tree(n):
        if isinstance(n, S.AND):
            return {"k": "and", "l": tree(n.left), "r": tree(n.right)}
        if isinstance(n, S.ElseIf):
            return {"k": "elif", "l": tree(n.left), "r": tree(n.right)}
        if isinstance(n, S.Union):
            return {"k": "union", "l": tree(n.left), "r": tree(n.right)}
        if isinstance(n, S.Comparator):
            if n.operation in names:
                return {"k": "cmp", "op": names[n.operation], "inv": bool(n._invert_), "l": expr(n.left), "r": expr(n.right)}
            return {"k": "in", "inv": n.operation is not _op.contains, "l": expr(n.left), "r": expr(n.right)}
        if isinstance(n, S.Variable) and n._predicate_type_:
            return {"k": "pred", "p": pred_names.get(n._name__, n._name__), "inv": bool(n._invert_),
                    "args": [expr(v) for v in n._child_vars_.values()]}
        if isinstance(n, S.DomainMapping):
            return {"k": "truth", "inv": bool(n._invert_), "e": expr(n)}
        return {"k": "other:" + type(n).__name__}

    root = builder.query._child_._child_
    return tree(root) if root is not None else {"k": "none"}


def run_query_case(case):
    """Family Q: a world, a list of queries, a list of evaluation events."""
    reset_library()
    heap, index_of = world.build_world(case["W"])
    before = set(index_of)
    shared = {} if case.get("share_vars") else None
    builders = {}
    out = dict(case)
    out["evs"] = []
    froms = {} if case.get("share_froms") else None
    # queries named by a "build" event are constructed when the history reaches it (under the configuration active
    # then); all others before the history starts
    late = {ev["qi"] for ev in case["evs"] if ev["op"] == "build"}

    def construct(qi):
        b = QueryBuilder(case["qs"][qi - 1], heap, shared)
        if froms is not None:
            b.froms = froms
        b.build()
        builders[qi] = b
        q = case["qs"][qi - 1]
        if "declare" in q and "tree" not in q:
            # what the cache keys are sorted by: the order in which the query's variables were created (variables shared
            # with an earlier query of the case were created by that one) - recorded, as the graph dump is
            keys = q.get("varkeys", list(range(1, len(q["vars"]) + 1)))
            ids = {i: getattr(b.vars[keys[i - 1]], "_id_", None) for i in range(1, len(q["vars"]) + 1) if keys[i - 1] in b.vars}
            if len(ids) == len(q["vars"]) and all(isinstance(v, int) for v in ids.values()):
                out["qs"] = list(out["qs"])
                out["qs"][qi - 1] = dict(q, declare=sorted(ids, key=lambda i: ids[i]))

    def build_failed(e):
        out["build_exc"] = exc_name(e) + ": " + str(e)[:200]
        out["build_tb"] = traceback.format_exc()[-1500:]
        out["evs"] = []
        return out
    try:
        for qi in range(1, len(case["qs"]) + 1):
            if qi not in late:
                construct(qi)
    except Exception as e:           # building must not fail on a well-sorted program
        return build_failed(e)

    def snapshot():
        return ([(id(o), tuple(sorted((k, id(v)) for k, v in vars(o).items()))) for o in heap[:len(case["W"]["objs"])]],
                [[id(x) for x in d] for _, b in sorted(builders.items()) for d in b.domlists])

    snap0 = snapshot()
    if case.get("dump_graph"):
        try:
            out["graphs"] = [dump_graph(b) for _, b in sorted(builders.items())]
        except Exception as e:
            out["graphs"] = [{"k": "other:dump-failed:" + exc_name(e)} for _ in builders]
    evaluated = set()
    for ev in case["evs"]:
        rec = dict(ev)
        op = ev["op"]
        if op == "drain":
            rec["first"] = ev["qi"] not in evaluated       # first evaluation of this expression object
            rec["b2"] = bool(ev.get("b2"))
            rec["b3"] = bool(ev.get("b3"))
        if "qi" in ev:
            evaluated.add(ev["qi"])
        if op == "cfg":
            (enable_caching if ev["caching"] else disable_caching)()
            out["evs"].append(rec)
            continue
        if op == "build":
            try:
                construct(ev["qi"])
            except Exception as e:
                return build_failed(e)
            snap0 = snapshot()
            out["evs"].append(rec)
            continue
        b = builders[ev["qi"]]
        rec["exc"] = "none"
        HITS["n"] = 0
        world.PredicatePlan.reset(ev.get("at", 0))
        ambient = []
        from entity_query_language import symbolic_mode as _sm, rule_mode as _rm
        pre_it, pre_rows = None, []
        if op == "drain" and ev.get("split") is not None:
            # the iterator is created and advanced `split` times under the opposite mode, the rest under `ambient`
            try:
                pre_it = iter(b.query.evaluate())
                for _ in range(ev["split"]):
                    pre_rows.append(b.row(next(pre_it), index_of))
            except StopIteration:
                pass
            except Exception as e:
                rec["exc"] = exc_name(e)
        for kind in {"none": [], "query": ["q"], "rule": ["r"], "nested": ["q", "r"], "symq": ["sq"], "ruleq": ["rq"],
                     "withq": ["wq"]}[ev.get("ambient", "none")]:
            if kind in ("sq", "rq", "wq"):      # blocks that also enter a query (expression context pushed)
                from entity_query_language import let as _let, an as _an, entity as _entity
                cv = _let(world.A, domain=[world.A(n=1)])
                with _sm():
                    ctxq = _an(_entity(cv, cv.n >= 0))
                cm = _sm(ctxq) if kind == "sq" else (_rm(ctxq) if kind == "rq" else ctxq)
            else:
                cm = _sm() if kind == "q" else _rm()
            cm.__enter__()
            ambient.append(cm)
        try:
            if op == "drain":
                rec["rows"] = list(pre_rows)
                for r in (pre_it if pre_it is not None else b.query.evaluate()):
                    rec["rows"].append(b.row(r, index_of))
            elif op in ("partial", "raised"):
                rec["rows"] = []
                it = iter(b.query.evaluate())
                try:
                    for _ in range(ev["k"] if op == "partial" else 10 ** 6):
                        try:
                            rec["rows"].append(b.row(next(it), index_of))
                        except StopIteration:
                            break
                finally:
                    if ev.get("how", "close") == "close":
                        it.close()
                    del it
            elif op == "abandon":
                # k results are taken and the iterator is closed; what they are is not recorded (used where the results are
                # fresh instances), only that nothing was raised
                it = iter(b.query.evaluate())
                rec["taken"] = 0
                try:
                    for _ in range(ev["k"]):
                        try:
                            inst = next(it)
                            rec["taken"] += 1
                            before.add(id(inst))
                            heap.append(inst)
                        except StopIteration:
                            break
                finally:
                    it.close()
                    del it
            elif op == "the":
                rec["out"], rec["row"] = "value", []
                try:
                    rec["row"] = b.row(b.query.evaluate(), index_of)
                except Exception as e:
                    if exc_name(e) in ("NoSolutionFound", "MultipleSolutionFound"):
                        rec["out"] = exc_name(e)
                    else:
                        raise
            elif op == "rule":
                rec["insts"] = []
                names = ["a", "b"] + (["c"] if len(b.q["vars"]) > 1 else [])
                for inst in b.query.evaluate():
                    rec["insts"].append({"cls": type(inst).__name__,
                                         "f": [world.encode(getattr(inst, n, None), index_of) for n in names],
                                         "fresh": id(inst) not in before})
                    before.add(id(inst))
                    heap.append(inst)
            elif op == "infer":
                rec["insts"] = []
                head = b.q["head"]
                for inst in b.query.evaluate():
                    rec["insts"].append({
                        "cls": type(inst).__name__,
                        "f": [world.encode(getattr(inst, a["name"], None), index_of) for a in head["args"]],
                        "fresh": id(inst) not in before})
                    before.add(id(inst))
                    heap.append(inst)       # keep alive so ids stay unique
            else:
                raise ValueError(op)
        except Exception as e:
            rec["exc"] = exc_name(e)
            rec["exc_msg"] = str(e)[:200]
        finally:
            for cm in reversed(ambient):
                cm.__exit__(None, None, None)
        rec["symcalls"] = sum(1 for m in world.PredicatePlan.modes if m)
        rec["hits"] = HITS["n"]
        rec["mutated"] = snapshot() != snap0
        rec["calls"] = world.PredicatePlan.calls
        rec["leak"] = "mode" if in_symbolic_mode() else "none"
        if in_symbolic_mode():
            _symbolic_mode.set(None)
        out["evs"].append(rec)
    return out


# the value alphabet of index cases: abstract value v (1..) stands for ALPHABETS[name][v]; "falsy" starts with the
# falsy members of common key sorts (a bound key is bound whatever its truthiness)
ALPHABETS = {"int": [None, 1, 2, 3, 4, 5], "falsy": [None, 0, "", 2, "b", ()]}


def _b2d(b, alpha="int"):
    return {k + 1: ALPHABETS[alpha][v] for k, v in enumerate(b) if v != 0}


def _d2b(d, nkeys, alpha="int"):
    return [ALPHABETS[alpha].index(d[k]) if k in d else 0 for k in range(1, nkeys + 1)]


def run_index_case(case):
    """Family index (C20): a history of inserts/clears on the real IndexedCache;
    after every operation the listed lookups are probed with check and retrieve."""
    nkeys = case["nkeys"]
    alpha = case.get("alpha", "int")
    cache = IndexedCache(list(range(1, nkeys + 1)))
    out = dict(case)
    out["evs"] = []
    for op in case["ops"]:
        if op["op"] == "insert":
            # the stored output is o - 1, so that output 1 is stored as the falsy value 0 (operator caches store booleans)
            cache.insert(_b2d(op["b"], alpha), op["o"] - 1)
            out["evs"].append({"op": "insert", "b": op["b"], "o": op["o"]})
        else:
            cache.clear()
            out["evs"].append({"op": "clear"})
        for lk in case["lookups"]:
            if any(lk):
                out["evs"].append({"op": "check", "lk": lk, "res": bool(cache.check(_b2d(lk, alpha)))})
            res = [[_d2b(r, nkeys, alpha), v + 1] for r, v in cache.retrieve(_b2d(lk, alpha))]
            out["evs"].append({"op": "retrieve", "lk": lk, "res": res})
    del out["ops"], out["lookups"]
    return out


def run_mode_case(case):
    """Family mode (C08): interleavings of block entry/exit with iterator
    creation/advance/close/drop/drain; after every step the publicly visible
    mode, context-stack depth and the behaviour of symbol construction,
    predicate calls and operators are recorded."""
    from entity_query_language import let, an, entity, symbolic_mode, rule_mode
    from entity_query_language.enums import EQLMode
    reset_library()
    objs = [world.A(n=k + 1) for k in range(case.get("nrows", 2))]
    queries = {}
    from entity_query_language import or_, and_, not_, in_, contains
    # the iterators of a behaviour run queries of different shapes (every object qualifies in each of them): the nodes a
    # result passes through while the iterator is suspended differ - comparator, method call, predicate, bare
    # attribute, disjunction whose right branch produces the result, negation, membership, sub-query
    shapes = [lambda x: x.n >= 0,
              lambda x: x.n_ge(0),
              lambda x: or_(x.n >= 5, x.n_ge(0)),
              lambda x: world.p_true(x.n),
              lambda x: x.n,
              lambda x: and_(x.n >= 0, x.n_plus(1) >= 1),
              lambda x: not_(x.n < 0),
              lambda x: contains([1, 2, 3, 4], x.n),
              lambda x: (lambda y: x == an(entity(y, y.n >= 0)))(let(world.A, domain=objs)),
              lambda x: or_(x.is_small(), x.n >= 2)]
    for i in range(1, case.get("niter", 2) + 1):
        x = let(world.A, domain=objs)
        with symbolic_mode():
            queries[i] = an(entity(x, shapes[(case.get("shapes") or [0] * i)[i - 1] % len(shapes)](x)))
    ctx_var = let(world.A, domain=objs)
    with symbolic_mode():
        ctx_query = an(entity(ctx_var, ctx_var.n >= 0))
    probe_var = let(world.A, domain=objs)
    the_var = let(world.A, domain=objs)
    with symbolic_mode():
        from entity_query_language import the as _the
        the_query = _the(entity(the_var, the_var.n == 1))
    blocks, its = [], {}

    def observe():
        mode = "rule" if in_symbolic_mode(EQLMode.Rule) else ("query" if in_symbolic_mode() else "none")
        r = world.A(n=1)
        sym = "instance" if type(r) is world.A else "symbolic"
        p = world.p_true(1)
        pred = "value" if p is True else "symbolic"
        try:
            probe_var == 1
            oper = "built"
        except AttributeError:
            oper = "rejected"
        return {"mode": mode, "depth": len(SymbolicExpression._symbolic_expression_stack_), "sym": sym, "pred": pred,
                "oper": oper}

    out = dict(case)
    out["evs"] = []
    for ev in case["evs"]:
        rec = dict(ev)
        rec["res"] = "-"
        op = ev["op"]
        try:
            if op == "enter":
                kind = ev["kind"]
                if kind == "withq":
                    ctx_query.__enter__()
                    blocks.append(("withq", ctx_query))
                else:
                    cm = {"sym": lambda: symbolic_mode(), "rule": lambda: rule_mode(),
                          "symq": lambda: symbolic_mode(ctx_query), "ruleq": lambda: rule_mode(ctx_query)}[kind]()
                    cm.__enter__()
                    blocks.append((kind, cm))
            elif op == "exit":
                kind, cm = blocks.pop()
                if ev["how"] == "exception":
                    err = ValueError("raised inside the block")
                    cm.__exit__(ValueError, err, None)
                else:
                    cm.__exit__(None, None, None)
            elif op == "new":
                its[ev["i"]] = queries[ev["i"]].evaluate()
            elif op == "next":
                try:
                    next(its[ev["i"]])
                    rec["res"] = "row"
                except StopIteration:
                    rec["res"] = "stop"
            elif op == "close":
                its[ev["i"]].close()
            elif op == "drop":
                del its[ev["i"]]
            elif op == "drain":
                list(its[ev["i"]])
            elif op == "evalthe":
                the_query.evaluate()
            else:
                raise ValueError(op)
        except Exception as e:
            rec["res"] = "exc:" + exc_name(e)
        rec.update(observe())
        out["evs"].append(rec)
    its.clear()
    while blocks:
        kind, cm = blocks.pop()
        try:
            cm.__exit__(None, None, None)
        except Exception:
            pass
    reset_library()
    return out


def run_lazy_case(case):
    """Family lazy (C07): a single-variable query whose domain is a one-shot
    logging iterator; a history of evaluate()/next/close/drain; after every
    step the pull log and the number of user-predicate calls are recorded."""
    reset_library()
    heap, index_of = world.build_world(case["W"])
    log = []
    q = json.loads(json.dumps(case["q"]))
    dom = q["vars"][0]["dom"]

    def gen():
        for o in dom:
            log.append(o)
            yield heap[o - 1]

    q["vars"][0]["decl"] = "iter"
    q["vars"][0]["_iterator"] = gen()
    b = QueryBuilder(q, heap)
    b.build()
    world.PredicatePlan.reset()
    out = dict(case)
    out["evs"] = []
    it = None
    for op in case["ops"]:
        rec = {"op": op, "res": 0, "rows": [], "exc": "none"}
        calls_before = world.PredicatePlan.calls
        try:
            if op == "new":
                it = None            # an unfinished previous iterator is dropped (finalised) first
                it = iter(b.query.evaluate())
            elif op == "next":
                try:
                    rec["res"] = index_of.get(id(next(it)), -1)
                except StopIteration:
                    rec["res"] = 0
            elif op == "close":
                it.close()
            elif op == "drain":
                rec["rows"] = [index_of.get(id(r), -1) for r in it]
        except Exception as e:
            rec["exc"] = exc_name(e)
        rec["pulls"] = list(log)
        rec["calls"] = world.PredicatePlan.calls - calls_before
        out["evs"].append(rec)
    del out["ops"]
    return out


def run_registry_case(case):
    """Family registry (C14): concrete / symbolic construction, rule inference,
    clearing and no-domain queries; objects are identified by the order of
    their concrete construction (the harness's own log - an input record)."""
    from entity_query_language import let, an, entity, infer, symbolic_mode, rule_mode
    reset_library()
    log = {}                  # id(obj) -> construction index
    keep = []
    counter = [0]
    inits = [0]
    declared = []
    orig_init, orig_own_init = world.Leaf.__init__, world.Own.__init__

    def counting_init(self, n=0, m=0):
        inits[0] += 1
        orig_init(self, n, m)

    def counting_own_init(self, n=0, m=0):
        inits[0] += 1
        orig_own_init(self, n, m)
    world.Leaf.__init__ = counting_init
    world.Own.__init__ = counting_own_init
    root = world.Own if case.get("hier") == "ownnew" else world.Base

    def register(o):
        counter[0] += 1
        log[id(o)] = counter[0]
        keep.append(o)

    out = dict(case)
    out["evs"] = []
    try:
        for ev in case["evs"]:
            rec = dict(ev)
            rec["exc"] = "none"
            op = ev["op"]
            try:
                if op == "construct":
                    cls = world.CLASSES[ev["cls"]]
                    k = counter[0] + 1
                    o = {"pos": lambda: cls(k % 3, 1), "kw": lambda: cls(n=k % 3, m=2), "default": lambda: cls()}[ev["style"]]()
                    rec["isinst"] = type(o) is cls
                    if rec["isinst"]:
                        register(o)
                    rec["inits"] = inits[0]
                elif op == "symconstruct":
                    cls = world.CLASSES[ev["cls"]]
                    with symbolic_mode():
                        o = cls(n=1) if ev["style"] == "kw" else cls()
                    rec["symbolic"] = isinstance(o, SymbolicExpression)
                    rec["inits"] = inits[0]
                elif op == "infer":
                    src = [o for o in keep if isinstance(o, root) and id(o) in log][:ev["n"]]
                    rec["got"] = []
                    if ev["n"] > 0:
                        x = let(root, domain=src)
                        with rule_mode():
                            q = infer(entity(world.P(a=x), x.n >= 0))
                        for inst in q.evaluate():
                            if id(inst) in log:
                                rec["got"].append(-1)       # an already registered object was handed out
                            else:
                                register(inst)
                                rec["got"].append(log[id(inst)])
                elif op == "clear":
                    for c in list(Variable._cache_.values()):
                        c.clear()
                    Variable._cache_.clear()
                elif op == "declare":
                    declared.append(let(world.CLASSES[ev["T"]]))
                elif op == "evalvar":
                    v = declared[ev["n"] - 1]
                    with symbolic_mode():
                        q = an(entity(v))
                    rec["res"] = [log.get(id(o), -1) for o in q.evaluate()]
                elif op == "query":
                    cls = world.CLASSES[ev["T"]]
                    if ev.get("style") == "an":        # the shorthand: an(T) builds variable and descriptor itself
                        with symbolic_mode():
                            q = an(cls)
                    else:
                        v = let(cls, name="v") if ev.get("style") == "named" else let(cls)
                        with symbolic_mode():
                            q = an(entity(v))
                    rec["res"] = [log.get(id(o), -1) for o in q.evaluate()]
            except Exception as e:
                rec["exc"] = exc_name(e) + ":" + str(e)[:80]
            for name, dflt in (("isinst", True), ("symbolic", True), ("inits", inits[0]), ("got", []), ("res", [])):
                rec.setdefault(name, dflt)
            out["evs"].append(rec)
    finally:
        world.Leaf.__init__ = orig_init
        world.Own.__init__ = orig_own_init
    return out


RUNNERS = {"registry": run_registry_case, "query": run_query_case, "index": run_index_case, "mode": run_mode_case, "lazy": run_lazy_case}


def run_case(case):
    try:
        if case.get("_trace_index"):
            global _orig_retrieve
            IndexedCache.retrieve = _orig_retrieve          # plain methods while tracing
            try:
                with IndexTracer() as tr:
                    out = RUNNERS[case.get("family", "query")](case)
                out["index_traces"] = tr.traces()
            finally:
                if os.environ.get("EQL_VERIF") == "1":
                    _install_hit_counter()
            return out
        return RUNNERS[case.get("family", "query")](case)
    except Exception as e:   # machinery failure, reported as such
        out = dict(case)
        out["harness_exc"] = exc_name(e) + ": " + str(e)[:300]
        out["harness_tb"] = traceback.format_exc()[-2000:]
        return out


def _worker(chunk):
    return [run_case(c) for c in chunk]


def replay(cases, workers=16, chunk=200):
    """Replay cases in worker processes (recycled regularly: the library keeps
    every expression it ever built alive)."""
    if not cases:
        return []
    chunks = [cases[k:k + chunk] for k in range(0, len(cases), chunk)]
    if workers <= 1 or len(chunks) == 1:
        return [r for ch in chunks for r in _worker(ch)]
    ctx = get_context("fork")
    with ctx.Pool(processes=min(workers, len(chunks)), maxtasksperchild=10) as pool:
        # a chunk of 200 cases takes a second or two; an evaluation that does not terminate must not hang the check
        # chunksize=1: one task = one chunk, otherwise map_async batches many chunks into a task and maxtasksperchild
        # recycles a worker only after tens of thousands of cases (several GB per worker in the thorough tier)
        res = pool.map_async(_worker, chunks, chunksize=1).get(timeout=int(os.environ.get("VERIF_REPLAY_TIMEOUT", "1800")))
    return [r for ch in res for r in ch]


if __name__ == "__main__":
    cases = [json.loads(l) for l in open(sys.argv[1])]
    for r in replay(cases, workers=1):
        print(json.dumps(r))
