"""./check Cxx [--tier quick|thorough] [--seed N] [--replay path]"""
from __future__ import annotations

import argparse
import json
import os
import sys
import traceback

sys.path.insert(0, os.path.dirname(os.path.dirname(os.path.abspath(__file__))))
os.environ.setdefault("PYTHONHASHSEED", "0")
os.environ["EQL_VERIF"] = "1"


def main():
    ap = argparse.ArgumentParser()
    ap.add_argument("prop")
    ap.add_argument("--tier", default=os.environ.get("VERIF_TIER", "quick"), choices=["quick", "thorough"])
    ap.add_argument("--seed", type=int, default=int(os.environ.get("VERIF_SEED", "1")))
    ap.add_argument("--replay")
    ap.add_argument("--selftest", action="store_true")
    a = ap.parse_args()
    from harness import checks, tlc
    try:
        if a.selftest:
            from harness import selftest
            sys.exit(selftest.selftest(a.prop))
        if a.replay:
            from harness import replays
            sys.exit(replays.replay_file(a.prop, a.replay))
        if a.prop not in checks.CHECKS:
            print(f"no check for {a.prop}", file=sys.stderr)
            sys.exit(2)
        sys.exit(checks.CHECKS[a.prop](a.tier, a.seed))
    except tlc.MachineryError as e:
        print("MACHINERY-FAILURE: " + str(e), file=sys.stderr)
        sys.exit(2)
    except SystemExit:
        raise
    except Exception:
        traceback.print_exc()
        sys.exit(2)


if __name__ == "__main__":
    main()
