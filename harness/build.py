"""AST (JSON, as exported by the TLA+ generator specifications) -> expressions of
the real library, using the public API only."""
from __future__ import annotations

import json

import operator

from entity_query_language import (let, an, the, entity, set_of, and_, or_, not_, contains, in_, infer,
                                   flatten, concatenate, for_all, symbolic_mode, rule_mode, From)

from . import world

OPS = {"eq": operator.eq, "ne": operator.ne, "lt": operator.lt, "le": operator.le,
       "gt": operator.gt, "ge": operator.ge}


class QueryBuilder:
    """Builds one query description.  Variables may be shared between the
    queries of a case: pass the same `shared_vars` dict."""

    def __init__(self, q, heap, shared_vars=None):
        self.q = q
        self.heap = heap
        self.vars = shared_vars if shared_vars is not None else {}
        # sub-query objects live next to the variables: shared between the queries of a case exactly when those are
        self.subs = self.vars.setdefault("_subs", {}) if shared_vars is not None else {}
        self.flats = {}
        self.shared_exprs = {}
        self.sel_exprs = []
        self.query = None
        self.domlists = []
        self.froms = {}

    # -- variables -------------------------------------------------------
    def var(self, i):
        key = self.q.get("varkeys", list(range(1, len(self.q["vars"]) + 1)))[i - 1]
        if key not in self.vars:
            v = self.q["vars"][i - 1]
            dom = [self.heap[o - 1] for o in v["dom"]]
            self.domlists.append(dom)
            decl = v.get("decl", "let")
            cls = world.CLASSES[v["cls"]]
            explicit = self.q.get("build") == "explicit"
            if decl == "let" or (explicit and decl == "term"):
                self.vars[key] = let(type_=cls, domain=dom)
            elif decl == "from":
                with symbolic_mode():
                    self.vars[key] = cls(self.from_for(v, dom))
            elif decl == "term":       # predicate form: T(From(d), positional..., field=value...)
                args, kwargs = [], {}
                for fc in v.get("fields", []):
                    val = self.expr(fc["e"])
                    if fc["style"] == "pos":
                        args.append(val)
                    else:
                        kwargs[fc["f"]] = val
                with symbolic_mode():
                    self.vars[key] = cls(self.from_for(v, dom), *args, **kwargs)
            elif decl == "subdom":    # the domain is itself a query over a variable of its own
                inner = let(type_=cls, domain=dom)
                self.vars[key] = inner
                with symbolic_mode():
                    sub = an(entity(inner, self.cond(v["domc"])))
                self.vars[key] = let(type_=cls, domain=sub)
            elif decl == "iter":      # one-shot iterator supplied by the case runner
                self.vars[key] = let(type_=cls, domain=v["_iterator"])
            else:
                raise ValueError(decl)
        return self.vars[key]

    def from_for(self, v, dom):
        """From(...) instance for a declaration; declarations with the same `fromkey` share one instance."""
        k = v.get("fromkey")
        if k is None:
            return From(dom)
        if k not in self.froms:
            self.froms[k] = From(dom)
        return self.froms[k]

    # -- value expressions ------------------------------------------------
    def expr(self, e):
        k = e["k"]
        if k in ("attr", "idx", "mcall") and self.q.get("shareexprs"):
            # `f = x.n`, selected and used once in the conditions: one expression object for both occurrences (as the
            # repository's examples select `handle = fixed_connection.child`).  An expression that occurs more than once
            # in the conditions is written out again there: expression objects are tree nodes with one parent, not_()
            # inverts its operand in place - one object in two condition positions is outside what the library supports.
            key = json.dumps(e, sort_keys=True)
            if json.dumps(self.q.get("cond"), sort_keys=True).count(key) <= 1:
                if key not in self.shared_exprs:
                    self.shared_exprs[key] = self._expr(e)
                return self.shared_exprs[key]
        return self._expr(e)

    def _expr(self, e):
        k = e["k"]
        if k == "var":
            return self.var(e["i"])
        if k == "lit":
            return world.decode(e["v"], self.heap)
        if k == "attr":
            return getattr(self.expr(e["e"]), e["a"])
        if k == "idx":
            return self.expr(e["e"])[world.decode(e["key"], self.heap)]
        if k == "mcall":
            recv = self.expr(e["e"])
            m = getattr(recv, e["m"])
            if e["arg"]["t"] == "noarg":
                return m()
            if e.get("kw"):
                return m(k=world.decode(e["arg"], self.heap))
            return m(world.decode(e["arg"], self.heap))
        if k == "flat":
            j = e["j"]
            if j not in self.flats:
                self.flats[j] = flatten(self.expr(self.q["flats"][j - 1]))
            return self.flats[j]
        if k == "concat":
            return concatenate(self.expr(e["e"]))
        if k == "sub":
            quant = the if e.get("quant") == "the" else an
            if self.q.get("sharesubs"):
                # one sub-query object per distinct sub-query expression, used wherever it occurs again (in this query,
                # and in the other queries of the case when they share their variables)
                key = json.dumps([self.q.get("varkeys", [])[e["i"] - 1] if self.q.get("varkeys") else e["i"], e],
                                 sort_keys=True)
                if key not in self.subs:
                    self.subs[key] = quant(entity(self.var(e["i"]), self.cond(e["c"])))
                return self.subs[key]
            c = self.cond(e["c"])
            return quant(entity(self.var(e["i"]), c))
        raise ValueError(k)

    # -- conditions ------------------------------------------------------
    def cond(self, c):
        k = c["k"]
        if k == "cmp":
            return OPS[c["op"]](self.expr(c["l"]), self.expr(c["r"]))
        if k == "in":
            item, cont = self.expr(c["item"]), self.expr(c["cont"])
            if c.get("form", "in_") == "contains":
                return contains(cont, item)
            return in_(item, cont)
        if k == "truth":
            return self.expr(c["e"])
        if k == "and":
            l, r = self.cond(c["l"]), self.cond(c["r"])
            return (l & r) if c.get("form") == "op" else and_(l, r)
        if k == "or":
            l, r = self.cond(c["l"]), self.cond(c["r"])
            return (l | r) if c.get("form") == "op" else or_(l, r)
        if k == "not":
            inner = self.cond(c["c"])
            return (~inner) if c.get("form") == "op" else not_(inner)
        if k == "chain":       # and_(a, b, c, ...) / or_(a, b, c, ...)
            cs = [self.cond(x) for x in c["cs"]]
            return and_(*cs) if c["op"] == "and" else or_(*cs)
        if k == "pred":
            args = [self.expr(a) for a in c["args"]]
            if c.get("form") == "class":
                return world.PREDICATE_CLASSES[c["p"]](*args)
            return world.PREDICATES[c["p"]](*args)
        if k == "hastype":
            from entity_query_language import HasType
            return HasType(self.expr(c["e"]), world.CLASSES[c["T"]])
        if k == "subq":
            def make():
                inner = self.cond(c["c"])
                sel = [self.expr(s) for s in c["sel"]]
                if c.get("desc", "entity") == "entity":
                    return an(entity(sel[0], inner))
                return an(set_of(sel, inner))
            if self.q.get("sharesubs"):          # as for operand sub-queries: one object per distinct expression
                keys = self.q.get("varkeys") or list(range(1, len(self.q["vars"]) + 1))
                key = json.dumps([keys, c], sort_keys=True)
                if key not in self.subs:
                    self.subs[key] = make()
                return self.subs[key]
            return make()
        if k == "forall":
            return for_all(self.expr(c["ue"]), self.cond(c["c"]))
        raise ValueError(k)

    def conds(self, c):
        """Top-level conditions passed to entity/set_of: `conj` lists several."""
        extra = []
        if self.q.get("build") == "explicit":      # explicit twin of predicate-form terms: one equality per field
            for i, v in enumerate(self.q["vars"]):
                for fc in v.get("fields", []):
                    extra.append(getattr(self.var(i + 1), fc["f"]) == self.expr(fc["e"]))
        if c["k"] == "true":
            return extra
        if c["k"] == "conj":
            return extra + [self.cond(x) for x in c["cs"]]
        return extra + [self.cond(c)]

    # -- rule trees ---------------------------------------------------------
    def build_rule(self):
        """query = an(entity(v := let(P), base condition)); with rule_mode(query): Add / refinement / alternative."""
        from entity_query_language import Add, refinement, alternative
        from entity_query_language.rule import next_rule
        tree = self.q["tree"]
        nv = len(self.q["vars"])
        with symbolic_mode():
            v = let(type_=world.P)
            self.query = an(entity(v, self.cond(tree["cond"])))

        def conclusion(node):
            if self.q.get("concl") == "second":          # conclusions that mention the second variable only
                kwargs = {"a": self.var(2), "b": node["tag"]}
            else:
                kwargs = {"a": self.var(1), "b": node["tag"]}
                if nv > 1:
                    kwargs["c"] = self.var(2)
            Add(v, world.P(**kwargs))

        def emit(node):
            conclusion(node)

            def refine():
                if node["ref"]["k"] == "node":
                    with refinement(self.cond(node["ref"]["cond"])):
                        emit(node["ref"])
                    for second in node["ref"]["alts"]:       # further `with refinement(...)` blocks of this node
                        if second.get("edge") == "ref2":
                            with refinement(self.cond(second["cond"])):
                                emit(second)
            if not node.get("reflast"):
                refine()
            for alt in node["alts"]:         # one `with alternative(...)` / `with next_rule(...)` block after the other
                if alt.get("edge") == "ref2":        # written by the parent as a second refinement block (see below)
                    continue
                block = next_rule if alt.get("edge") == "next" else alternative
                with block(self.cond(alt["cond"])):
                    emit(alt)
            if node.get("reflast"):          # the refinement block written after the alternatives
                refine()

        with rule_mode(self.query):
            emit(tree)
        return self.query

    # -- whole query -------------------------------------------------------
    def build(self):
        q = self.q
        if "tree" in q:
            return self.build_rule()
        quant = {"an": an, "the": the, "infer": infer}[q.get("quant", "an")]
        for i in q.get("declare", []):       # declaration order of the variables (C18); default: order of first mention
            self.var(i)
        ctx = rule_mode() if q.get("quant") == "infer" or q.get("mode") == "rule" else symbolic_mode()
        with ctx:
            if "head" in q:
                cls = world.CLASSES[q["head"]["cls"]]
                kwargs = {a["name"]: self.expr(a["e"]) for a in q["head"]["args"]}
                head = cls(**kwargs)
                self.sel_exprs = [head]
                self.query = quant(entity(head, *self.conds(q["cond"])))
                return self.query
            # conditions are built before the selection list so that flatten
            # nodes are created once and shared
            self.sel_exprs = [self.expr(s) for s in q["sel"]]
            conds = self.conds(q["cond"])
            if q.get("short"):        # an(x, c1, c2) / an([x, y], c): the quantifier builds the descriptor itself
                self.query = quant(self.sel_exprs[0] if q["desc"] == "entity" else list(self.sel_exprs), *conds)
            else:
                if q["desc"] == "entity":
                    d = entity(self.sel_exprs[0], *conds)
                else:
                    d = set_of(self.sel_exprs, *conds)
                if q.get("notdesc"):      # not_ applied to the descriptor itself
                    from entity_query_language import not_
                    d = not_(d)
                self.query = quant(d)
        return self.query

    # -- reading results ----------------------------------------------------
    def row(self, result, index_of):
        if self.q["desc"] == "entity" or "head" in self.q:
            return [world.encode(result, index_of)]
        return [world.encode(result[s], index_of) for s in self.sel_exprs]
