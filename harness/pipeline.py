"""Common machinery of every check: scratch space, TLC stages, replay, trace
validation, classification of rejections against known findings, evidence."""
from __future__ import annotations

import json
import os
import shutil
import sys
import tempfile
import time

from . import tlc, replay as replay_mod
from .syntax import digest

VERIF = os.path.dirname(os.path.dirname(os.path.abspath(__file__)))
FINDINGS = os.path.join(VERIF, "known_findings.json")


# Layer B switches as the current code has them (each names a repaired deviation; the other value is the code before
# the repair, kept so that TLC can show the deviation breaks the obligation)
CODE = {"AndLeftTrueNeedsFalseSet": True,     # fix: a true left operand of a conjunction ...
        "RightKeepsLeftVars": True,           # fix: results of a right operand that differ in a variable of the left operand are not duplicates
        "PreferWildcardB3": False,            # fix: IndexedCache.retrieve follows every matching branch
        "ReplayLeavesOutRepeats": True,       # fix: a cached result stored under a partial binding is replayed once
        "ElseIfStoresDuplicates": True,       # fix: a disjunction did not cache the right-branch results it dropped as duplicates
        "ForAllInvalidatesUniversal": "always",   # fix: a for_all over a sub-query ... (the universal's caches are cleared on an early exit)
        "ForAllKeepsConditionVars": True}     # fix: for_all lost solutions when its condition has a variable nobody above needs


def load_findings():
    if not os.path.exists(FINDINGS):
        return []
    return json.load(open(FINDINGS))["findings"]


class Run:
    def __init__(self, prop, tier, seed, level="model_checking"):
        self.prop, self.tier, self.seed, self.level = prop, tier, seed, level
        self.t0 = time.time()
        self.scratch = tempfile.mkdtemp(prefix=f"eqlverif-{prop}-")
        self.states = 0
        self.transitions = 0
        self.mc_runs = []
        self.exhaustive = True
        self.cases = 0
        self.traces_validated = 0
        self.nontrivial = set()
        self.samples = []
        self.rejections = []          # (trace, rejection-list)
        self.drift = []               # Layer B (mechanism model) disagreements with the code
        self.observations = {}        # behaviour outside the listed properties that disagrees with the specification
        self.event_counts = {}        # recorded events by kind
        self.violations = []          # replay paths
        self.known = []               # KNOWN-FINDING lines
        self.notes = []
        self.assumptions = []
        self.rule = ""
        self.extra = {}
        self.workers = int(os.environ.get("VERIF_WORKERS", "16"))
        import atexit
        atexit.register(lambda: shutil.rmtree(self.scratch, ignore_errors=True))

    # ------------------------------------------------------------ TLC stages
    def mc(self, module, name, constants=None, invariants=(), properties=(), constraint=None, view=None,
           extra=(), workers=None, timeout=3600, count=True, spec="Spec", expect_violation=None):
        """Model-check; the invariants must hold.  expect_violation = name of an invariant that TLC must find violated
        (a deviation model: the run documents that the recorded deviation breaks the obligation)."""
        cfg = os.path.join(self.scratch, f"{module}-{name}.cfg")
        tlc.write_cfg(cfg, spec=spec, constants=constants, invariants=invariants, properties=properties,
                      constraint=constraint, view=view)
        r = tlc.run(module, cfg, self.scratch, workers=workers or self.workers, extra=extra, timeout=timeout,
                    tag=f"{module}-{name}")
        if expect_violation:
            if r["violated"] != expect_violation:
                raise tlc.MachineryError(f"the deviation model ({module}, {name}) was expected to violate {expect_violation}, "
                                         f"TLC reports {r['violated']}")
        elif r["violated"]:
            raise tlc.MachineryError(f"the specification violates its own invariant {r['violated']} "
                                     f"({module}, {name}):\n" + r["out"][-4000:])
        if count:
            self.states += r["states"]
            self.transitions += r["transitions"]
        self.mc_runs.append({"module": module, "config": name, "constants": constants or {},
                             "invariants": list(invariants), "properties": list(properties),
                             **({"expected_violation": expect_violation} if expect_violation else {}),
                             "states": r["states"], "transitions": r["transitions"],
                             "seconds": round(r["seconds"], 1), "mode": "simulate" if "-simulate" in extra else "bfs"})
        return r

    def export(self, module, name, key, constants=None, invariants=("Export",), simulate=None, depth=None,
               constraint=None, count=True, timeout=3600):
        """Run a generator configuration with -workers 1 and return what it
        printed under `key` (deduplicated, order kept)."""
        extra = []
        if simulate:
            extra += ["-simulate", f"num={simulate}", "-depth", str(depth or 20), "-seed", str(self.seed)]
            self.exhaustive = False
        r = self.mc(module, name, constants=constants, invariants=invariants, constraint=constraint,
                    extra=extra, workers=1, count=count and not simulate, timeout=timeout)
        seen, res = set(), []
        for p in tlc.printed(r["out"], key):
            d = digest(p)
            if d not in seen:
                seen.add(d)
                res.append(p)
        return res

    # ------------------------------------------------------------ binding
    def replay(self, cases):
        os.environ["EQL_VERIF"] = "1"
        self.cases += len(cases)
        t = time.time()
        try:
            traces = replay_mod.replay(cases, workers=self.workers)
        except Exception as e:      # multiprocessing.TimeoutError or a crashed worker
            if type(e).__name__ == "TimeoutError":
                raise tlc.MachineryError("replay did not finish within the time limit (an evaluation that does not terminate?)")
            raise
        self.extra["replay_s"] = round(self.extra.get("replay_s", 0) + time.time() - t, 1)
        for t in traces:          # which kinds of events were actually exercised (non-vacuity of the exploration)
            for e in t.get("evs", []):
                k = e.get("op", "?") + ("/" + str(e["kind"]) if e.get("kind") not in (None, "-") else "") + \
                    ("/" + str(e["ambient"]) if e.get("ambient") not in (None, "none") else "")
                self.event_counts[k] = self.event_counts.get(k, 0) + 1
        bad = [x for x in traces if "harness_exc" in x]
        if bad:
            raise tlc.MachineryError("harness failure: " + bad[0]["harness_exc"] + "\n" + bad[0].get("harness_tb", ""))
        return traces

    def validate(self, module, traces, strip=(), count=True):
        """Validate recorded traces with TLC; returns {id: [rejections]}."""
        t = time.time()
        slim = []
        for tr in traces:
            s = {k: v for k, v in tr.items() if not k.startswith("_") and k not in strip}
            slim.append(s)
        consts = dict(CODE, B3Judge="obs") if module == "TraceQuery" else None     # Layer B switch: the current code
        rej, n = tlc.validate(module, slim, self.scratch, shards=self.workers, constants=consts)
        if count:
            self.traces_validated += n
        self.extra["validate_s"] = round(self.extra.get("validate_s", 0) + time.time() - t, 1)
        by = {}
        tr_by_id = None
        for r in rej:
            if r["clause"].startswith("drift."):      # Layer B disagrees with the code: model drift, not a verdict
                self.drift.append(r)
                if os.environ.get("VERIF_KEEP_DRIFT") and len(self.drift) <= 40:     # for working on the model
                    tr_by_id = tr_by_id or {t["id"]: t for t in traces}
                    d = os.path.join(VERIF, "replays", self.prop)
                    os.makedirs(d, exist_ok=True)
                    with open(os.path.join(d, f"drift-{r['id']}.json"), "w") as f:
                        json.dump({"rejection": r, "trace": tr_by_id[r["id"]]}, f, indent=1)
                continue
            by.setdefault(r["id"], []).append(r)
        return by

    def validate_with(self, module, traces, constants, count=True):
        """Like validate, with constants for the trace specification."""
        t = time.time()
        slim = [{k: v for k, v in tr.items() if not k.startswith("_") and k != "family"} for tr in traces]
        rej, n = tlc.validate(module, slim, self.scratch, shards=self.workers, constants=constants)
        if count:
            self.traces_validated += n
        self.extra["validate_s"] = round(self.extra.get("validate_s", 0) + time.time() - t, 1)
        by = {}
        for r in rej:
            by.setdefault(r["id"], []).append(r)
        return by

    # ------------------------------------------------------------ verdicts
    def violation(self, case, trace, rejections, family="query"):
        """Record a rejected execution that no known finding covers."""
        self.violations.append({"property": self.prop, "family": family, "case": dict(case), "trace": trace,
                                "rejections": rejections})

    def _write_violations(self):
        """Write replay files for the 25 smallest violating cases and print
        VIOLATION lines for the 5 smallest (all are counted)."""
        if not self.violations:
            return
        d = os.path.join(VERIF, "replays", self.prop)
        os.makedirs(d, exist_ok=True)
        ordered = sorted(self.violations, key=lambda v: len(json.dumps(v["case"])))
        for n, v in enumerate(ordered[:25]):
            path = os.path.join(d, digest(v["case"]) + ".json")
            with open(path, "w") as f:
                json.dump(v, f, indent=1)
            if n < 5:
                what = "; ".join(f"event {r['at']}: {r['clause']}" for r in v["rejections"][:3])
                print(f"VIOLATION property={self.prop} replay={path}   [{what}]")

    def observation(self, what, case, trace, rejections):
        """The specification covers more of the system than the listed properties.  A recorded execution of such
        behaviour that the specification rejects is reported (and a replay kept) but is no verdict on the property."""
        o = self.observations.setdefault(what, {"count": 0, "clauses": {}, "replay": None})
        o["count"] += 1
        key = f"event {rejections[0]['at']}: {rejections[0]['clause']}"
        o["clauses"][key] = o["clauses"].get(key, 0) + 1
        if o["replay"] is None:
            d = os.path.join(VERIF, "replays", self.prop)
            os.makedirs(d, exist_ok=True)
            o["replay"] = os.path.join(d, "observation-" + digest(case) + ".json")
            with open(o["replay"], "w") as f:
                json.dump({"property": self.prop, "family": "query", "observation": what,
                           "case": {k: v for k, v in case.items() if not k.startswith("_")}, "trace": trace,
                           "rejections": rejections}, f, indent=1)

    def known_finding(self, finding, detail=""):
        line = f"KNOWN-FINDING: property={self.prop} {finding['what']}"
        if line not in self.known:
            self.known.append(line)
            print(line + (f"   [{detail}]" if detail else ""))

    # ------------------------------------------------------------ evidence
    def finish(self):
        cov = {
            "states": self.states, "transitions": self.transitions,
            "traces_validated_against_impl": self.traces_validated,
            "evaluations": self.cases,
            "distinct_nontrivial": len(self.nontrivial),
            "rule": self.rule,
            "samples": self.samples[:3],
            "exhaustive": self.exhaustive,
            "tlc_runs": self.mc_runs,
            "known_findings_reported": self.known,
            "recorded_events_by_kind": dict(sorted(self.event_counts.items())),
            "beyond_the_listed_properties": self.observations,
            "layer_b": {"status": "drifted" if self.drift else "bound (no disagreement on this run)",
                        "disagreements": len(self.drift), "examples": self.drift[:3]},
            "notes": self.notes,
        }
        cov.update(self.extra)
        ev = {"property_id": self.prop, "tier": self.tier, "seed": self.seed, "level": self.level,
              "coverage": cov, "assumptions": self.assumptions, "wall_s": round(time.time() - self.t0, 1),
              "violations": len(self.violations)}
        os.makedirs(os.path.join(VERIF, "evidence"), exist_ok=True)
        with open(os.path.join(VERIF, "evidence", self.prop + ".json"), "w") as f:
            json.dump(ev, f, indent=1)
        shutil.rmtree(self.scratch, ignore_errors=True)
        self._write_violations()
        for what, o in self.observations.items():
            print(f"OBSERVATION: {o['count']} executions of behaviour outside the listed properties ({what}) disagree with "
                  f"the specification {o['clauses']}; replay={o['replay']}; this is not a verdict on the property")
        if self.drift:
            kinds = sorted({d["clause"] for d in self.drift})
            print(f"MODEL-DRIFT: {len(self.drift)} traces disagree with the mechanism model (Layer B) {kinds}; "
                  f"this is not a verdict on the property")
        if len(self.violations) > 5:
            print(f"... {len(self.violations)} violating cases in total, replays under /verif/replays/{self.prop}/")
        print(f"{self.prop} {self.tier}: states={self.states} cases={self.cases} "
              f"traces_validated={self.traces_validated} nontrivial={len(self.nontrivial)} "
              f"violations={len(self.violations)} known={len(self.known)} wall={ev['wall_s']}s")
        return 1 if self.violations else 0

    def abort(self):
        shutil.rmtree(self.scratch, ignore_errors=True)
