#!/venv/bin/python
"""Regenerate /verif/MANIFEST.json from the table below and validate it."""
import json
import sys

import jsonschema

sys.path.insert(0, "/verif")
from harness.checks import CHECKS  # noqa: E402

MC = "model_checking"
NOTE_Q = ("Trusted: TLC, the TLA+ value model EQLValues (validated against CPython by tools/values_selftest in setup), "
          "the replay harness (builds programs through the public API only, computes no expected value). Bounded: "
          "programs and datasets within the generator bounds plus seeded random walks beyond them.")

TABLE = {
    "C01": dict(text="TLC enumerates every single-variable condition tree of the bounded builder machine (BFS) and random-walks to "
                     "larger ones; each is executed on the real library over several worlds and the recorded result sequence is "
                     "judged by TLC against the denotation RowSeq (order, multiplicity, membership). Also: the query without any condition, constant (variable-free) conditions, domains whose distinct objects compare equal, and TLC model-checks the evaluator mechanism model (EQLMech) against the denotation.",
                technique="TLA+ denotational spec (EQLSem) + TLC-generated programs replayed into the library + TLC batch trace validation",
                ref="7 C01"),
    "C02": dict(text="As C01 for 2- and 3-variable queries (joins, self-joins, chained attributes, every selection list of the "
                     "generator); rows judged as multiset/set of satisfying assignments incl. values of selected expressions. Also all three-condition trees, left-deep four-condition chains and condition-less queries; TLC model-checks the mechanism models with duplicate suppression (EQLMech2) and result caches (EQLMech3) against the denotation and the trace specification requires them to predict the exact row sequences.",
                technique="TLA+ denotational spec + TLC-generated programs replayed + TLC trace validation", ref="7 C02"),
    "C03": dict(text="For every generated condition c: c, not_(c), not_(not_(c)) built from scratch and each judged by TLC against "
                     "Holds(not c) = ~Holds(c); double negation must reproduce c's rows. Also not_ applied to the descriptor itself, re-evaluated under both cache configurations, and predicate calls on the variables themselves.",
                technique="TLA+ denotational spec + TLC-generated programs (negation at any depth) replayed + TLC trace validation",
                ref="7 C03"),
    "C06": dict(text="the(d).evaluate() twice and an(d) on generated descriptions with all variables selected over small domains; "
                     "TLC computes TheOutcome (value / NoSolutionFound / MultipleSolutionFound) and compares class and value.",
                technique="TLA+ spec TheOutcome + TLC-generated programs replayed + TLC trace validation", ref="7 C06"),
    "C20": dict(text="TLC checks, for every history of <=3-4 inserts/clears over 3 keys x 2 values and every lookup, that the "
                     "nested-dict mechanism with a complete descent equals the reference store (design level); the same histories "
                     "and random longer ones are replayed on the real IndexedCache with every lookup probed after every operation "
                     "and judged by TLC against the reference (entries as a multiset), over an ordinary and a falsy value "
                     "alphabet; TLC also shows that the descent the code had before the repair of 37f0dc8 breaks the contract.",
                technique="TLA+ reference store vs mechanism model checked by TLC + exported histories replayed on IndexedCache + TLC trace validation",
                ref="7 C20",
                note="Trusted: TLC, CacheIndexOps (reference + mechanism), the index replay runner. The former finding F1 was "
                     "repaired (known_findings.json, fixed:); nothing is suppressed."),
    "C08": dict(text="TLC explores every interleaving (depth-bounded, 3 nested blocks, 2 iterators) of block entry/exit (5 block "
                     "kinds, normal/exceptional exit) with iterator new/next/close/drop/drain and checks that the mechanism "
                     "(context variable + saved previous values) keeps the mode equal to what the open blocks prescribe; every "
                     "behaviour to the export depth and random walks are replayed on the library and TLC validates the mode, "
                     "context-stack depth, @symbol construction, @predicate call and operator behaviour observed after every step.",
                technique="TLA+ state machine (ModeOps/Mode) model checked by TLC + exported interleavings replayed + TLC trace validation",
                ref="7 C08",
                note="Trusted: TLC, ModeOps, the mode replay runner (enters/exits context managers by hand). Single thread and "
                     "single contextvars context; threads/asyncio tasks are not modelled."),
    "C19": dict(text="G1/G2 programs (operands, selected attribute expressions, predicate arguments) executed on worlds whose "
                     "values are mostly 0, '', [], None and judged by TLC against the denotation (Val never consults truthiness); "
                     "plus an oracle-free twin: program and world shifted away from falsy must return the same rows by index. Also calls whose arguments are falsy, and attribute expressions selected on their own (None included).",
                technique="TLA+ denotational spec + TLC-generated programs replayed on falsy-rich data + TLC trace validation + metamorphic shift twin",
                ref="7 C19"),
    "C07": dict(text="TLC checks on the Lazy state machine (every qualifying set over a 4-element domain, every history of "
                     "evaluate/next/close/drain to the depth bound) that the memoising-domain mechanism pulls exactly the prefix "
                     "the promise prescribes and never re-pulls; exported histories and random walks are paired with G1 "
                     "conditions, executed with a one-shot logging generator as domain, and TLC validates the pull log, "
                     "predicate-call count and delivered results after every step.",
                technique="TLA+ state machine (LazyOps/Lazy) model checked by TLC + exported histories replayed with a logging iterator + TLC trace validation",
                ref="7 C07"),
    "C04": dict(text="TLC enumerates every history (depth-bounded, plus random walks) of full, partial (k results then close/drop) "
                     "and exception-aborted evaluations over a pool of two queries sharing variables; each history is replayed "
                     "with generated G1/G2 programs and TLC judges every evaluation against the denotation irrespective of its "
                     "position; duplicate-listing domains must answer the same on first and later evaluations; a before/after "
                     "snapshot of user lists and objects must be unchanged; pairs of queries over three shared variables that "
                     "compare variables directly; the cache mechanism model (EQLMech3) must predict the exact rows of every full "
                     "evaluation of a history, restarting from empty caches after an unfinished one.",
                technique="TLA+ session machine (EvalSession) histories exported by TLC + replay with fault injection into user predicates + TLC trace validation against EQLSem",
                ref="7 C04"),
    "C05": dict(text="Every generated program is built twice and evaluated under both cache configurations, first evaluation and "
                     "re-evaluations, and with the configuration switched under a live expression object; TLC judges every "
                     "evaluation against the denotation and requires equal row sets; runs without cache retrievals do not "
                     "count as non-trivial. Query construction is a step of the history (built under caching off, evaluated "
                     "under caching on). TLC also model-checks the mechanism model of the operator caches (EQLMech3: first "
                     "evaluation and re-evaluation equal the denotation; with the incomplete index descent the code had before "
                     "commit 37f0dc8 it derives the former finding F2) and the trace specification requires that model to predict "
                     "every cached evaluation's exact rows; on three-variable trees of distinct leaves over overlapping variable "
                     "sets (grammars G3w / G3ws) it derived the defects repaired by 599f2da and de878c9, whose counterexamples "
                     "are replayed as they are. Rule trees with next_rule branches are compared across evaluations and "
                     "configurations only (open finding F3).",
                technique="TLA+ denotational spec + mechanism model of the operator caches (EQLMech3) model checked by TLC + TLC-generated programs and build/configure/evaluate histories replayed + TLC trace validation",
                ref="7 C05"),
    "C10": dict(text="TLC's builder machine generates for_all(u, c) / for_all(u.n, c) with every condition tree over leaves on the "
                     "universal variable, the free variable or both, alone or conjoined with outer conditions; each is executed "
                     "and TLC judges the rows against the universally quantified statement of the denotation. Also a second free variable that occurs only under the quantifier (random and textbook worlds) and sub-query universals; TLC model-checks the mechanism of for_all (EQLMech3 stage B4) against the denotation and the trace specification requires it to predict the exact rows of plain-universal programs.",
                technique="TLA+ denotational spec (forall) + TLC-generated programs replayed + TLC trace validation", ref="7 C10"),
    "C15": dict(text="Generated queries use sub-queries (entity and set_of, over the enclosing or another variable) as conditions "
                     "combined by and_/or_ with each other and with plain conditions, and as comparison operands (conjunctive "
                     "contexts); TLC gives a sub-query the meaning of its conditions inlined and judges the rows.",
                technique="TLA+ denotational spec (subq/sub = inlined conditions) + TLC-generated programs replayed + TLC trace validation",
                ref="7 C15"),
    "C16": dict(text="Generated queries over flatten(e) for list, tuple, scalar and object-list sources, all selections of parent "
                     "and element, with and without conditions; TLC computes UNNEST (one row per element, parent binding kept) "
                     "and compares as multiset when parent and element are selected. Also condition-less flatten queries, two flattens of one parent, and flattened scalars that may be None.",
                technique="TLA+ denotational spec (flatten = derived variable slot) + TLC-generated programs replayed + TLC trace validation",
                ref="7 C16"),
    "C17": dict(text="Generated membership tests of another variable against concatenate(e) and their negations, combined with "
                     "other conditions, plus an(entity(concatenate(e))) whose single row must equal the list of all elements in "
                     "domain and inner order; judged by TLC against ConcatFrom. Also concatenate selected through entity / set_of (alone or next to a free variable, over a variable or a sub-query, re-evaluated under both cache configurations), concatenate(flatten(..)), sub-query parents, and scalars that may be None.",
                technique="TLA+ denotational spec (ConcatFrom) + TLC-generated programs replayed + TLC trace validation", ref="7 C17"),
    "C14": dict(text="TLC explores every history (depth-bounded, plus random walks) of concrete construction in three styles over a "
                     "three-level hierarchy (decorated, decorated by inheritance, undecorated with hand-written __init__), symbolic "
                     "construction, rule inference, clearing and no-domain queries; histories are replayed and TLC computes the "
                     "expected registry contents for every query, and checks symbolic construction registers nothing and runs "
                     "no __init__. Also a hierarchy whose base class has a hand-written __new__.",
                technique="TLA+ state machine (RegistryOps/Registry) + exported histories replayed + TLC trace validation", ref="7 C14",
                note="Trusted: TLC, RegistryOps, the registry replay runner (identifies objects by construction order)."),
    "C11": dict(text="Rules infer(entity(T(f=e...), body)) with generated two-variable bodies and heads (variables, attribute "
                     "expressions incl. falsy values, constants, None; classes P and R) are evaluated in rule mode; every produced "
                     "instance is logged (class, fields by identity, newness) and TLC compares the multiset with one instance per "
                     "satisfying assignment of the denotation. Also heads whose arguments are sub-queries (correlated and uncorrelated), bodies over independent conditions, and histories that start with an abandoned evaluation.",
                technique="TLA+ denotational spec (InferSeq) + TLC-generated rules replayed + TLC trace validation", ref="7 C11"),
    "C13": dict(text="TLC enumerates predicate-form terms (every subset of 4 fields, keyword/positional, constants incl. falsy, "
                     "variable and nested-term values) and typed declarations over mixed-class domains (let, T(From(d)), term, "
                     "shared From instance); each is built in term form and in explicit form, both judged against the "
                     "denotation (type filter + one equality per field) and against each other. Also a class with a keyword-only field between positional ones and declarations whose domain is itself a query.",
                technique="TLA+ denotational spec (FieldsHold, IsInst) + TLC-enumerated terms replayed in both forms + TLC trace validation",
                ref="7 C13"),
    "C12": dict(text="TLC's builder machine (Add, with refinement, with alternative, leave block) enumerates every rule-tree shape up "
                     "to 3-4 branches x branch conditions over the base's variables (1 and 2 variables) and random-walks to 6 "
                     "branches; each tree is built through the API and evaluated; TLC's ripple-down interpreter Fire computes, per "
                     "assignment, which tagged conclusion must be produced and compares the multiset. Also a second refinement block per branch; TLC model-checks that the operator structure rule.py wires equals the ripple-down reading for every tree and valuation (RuleMech, also with next_rule branches); trees with next_rule are executed as an observation outside the property.",
                technique="TLA+ reference interpreter (Fire) + TLC-generated rule trees replayed + TLC trace validation", ref="7 C12"),
    "C09": dict(text="Each predicate-using query (an drained, the) and each rule (infer) is built once per ambient mode (none, "
                     "symbolic_mode, rule_mode, nested) and evaluated under it; TLC judges every evaluation against the denotation "
                     "and requires equal answers; the harness's counting predicates report whether any user predicate observed "
                     "symbolic mode, and inferred objects must be real instances. Also user predicates that build and evaluate a query of their own, and variables whose domain is a query with an evaluation abandoned inside a block.",
                technique="TLA+ denotational spec + TLC-generated programs replayed under every ambient mode + TLC trace validation",
                ref="7 C09"),
    "C18": dict(text="TLC model-checks that every rewrite of EQLSyntax!Variants preserves the denotation for all programs of the "
                     "bounded generator on a reference world (RewriteCheck); TLC then derives the variants of every generated "
                     "program, the harness adds permuted domains, reversed declaration order and permuted selection lists, and "
                     "each variant executed on the library must satisfy the denotation and return the original's row set.",
                technique="TLA+ rewrite relation model checked against the denotation + TLC-derived variants replayed + TLC trace validation (metamorphic and against EQLSem)",
                ref="7 C18"),
}

REASON_PENDING = "check not built yet (work in progress; see DESIGN.md section 10)"


def main():
    props = [json.loads(l) for l in open("/verif/properties.jsonl")]
    checks, na = [], []
    for p in props:
        pid = p["id"]
        if pid in TABLE and pid in CHECKS:
            t = TABLE[pid]
            checks.append({
                "property_id": pid,
                "quick_cmd": f"./check {pid} --tier quick",
                "thorough_cmd": f"./check {pid} --tier thorough",
                "evidence_file": f"/verif/evidence/{pid}.json",
                "replay_cmd_template": f"./check {pid} --replay {{path}}",
                "engine": t.get("engine", "tlc+replay"),
                "level_claimed": {"category": t.get("level", MC), "text": t["text"], "design_ref": t["ref"]},
                "level_note": t.get("note", NOTE_Q),
                "technique": t["technique"],
            })
        else:
            na.append({"property_id": pid, "reason": TABLE.get(pid, {}).get("na", REASON_PENDING)})
    m = {
        "version": 1,
        "setup_cmd": "/verif/tools/setup.sh",
        "hooks": {
            "guard": "EQL_VERIF",
            "enable": "no hooks in /repo's source: every observation is public API or harness-side; with EQL_VERIF=1 the "
                      "harness installs run-time wrappers (cache-retrieval counter, evaluation tracer) in its own process",
            "baseline_off_cmd": "cd /repo && /venv/bin/python -m pytest -ra -q -p no:cacheprovider --timeout=900 "
                                "--continue-on-collection-errors",
            "source_commits": [],
            "add_only": True,
        },
        "engines": [
            {"name": "tlc+replay", "path": "/verif/check",
             "serves_properties": [c["property_id"] for c in checks],
             "kind_free_text": "TLC model checking / behaviour export from the TLA+ specifications in /verif/spec, replay of the "
                               "exported behaviours on the library (harness/replay.py), TLC batch validation of the recorded traces"},
        ],
        "checks": checks,
        "not_applicable": na,
        "notes": "See DESIGN.md. Known findings and repaired defects: /verif/known_findings.json.",
    }
    jsonschema.validate(m, json.load(open("/root/.vp/MANIFEST.schema.json")))
    json.dump(m, open("/verif/MANIFEST.json", "w"), indent=1)
    print(f"MANIFEST.json: {len(checks)} checks, {len(na)} not_applicable")


if __name__ == "__main__":
    main()
