#!/venv/bin/python
"""Record CPython's answers for the value universe of the specification."""
import itertools, json, sys
sys.path.insert(0, "/verif")
from harness.world import encode, A
objs = [A(), A()]
index_of = {id(o): k + 1 for k, o in enumerate(objs)}
U = [-1, 0, 1, 2, True, False, None, "", "a", "ab", "b", "ba", [], [0], [1, 2], [0, 1], [True], (), (0,), (0, 1),
     [objs[0]], objs[0], objs[1], ["a"], [None], [[]], ([0], 1)]
def kind(v):
    return "num" if isinstance(v, (int, bool)) else "str" if isinstance(v, str) else "other"
with open(sys.argv[1], "w") as f:
    for x, y in itertools.product(U, U):
        ordered = kind(x) == kind(y) and kind(x) in ("num", "str")
        container = isinstance(y, (list, tuple)) or (isinstance(y, str) and isinstance(x, str))
        r = {"x": encode(x, index_of), "y": encode(y, index_of), "truthy": bool(x), "eq": x == y, "ordered": ordered,
             "lt": (x < y) if ordered else False, "le": (x <= y) if ordered else False, "ge": (x >= y) if ordered else False,
             "container": container, "isin": (x in y) if container else False,
             "startswith": x.startswith(y) if isinstance(x, str) and isinstance(y, str) else False}
        f.write(json.dumps(r) + "\n")
