#!/venv/bin/python
"""Evaluate a seeded change: apply <dir>/patch.diff to /repo, run the baseline, the demo and the given checks,
then undo it.  usage: try_seed.py <seed-dir> <id> <property> [checks...]   (results -> /verif/seeded/<id>/)"""
import json, os, shutil, subprocess, sys, time

src, sid, prop = sys.argv[1], sys.argv[2], sys.argv[3]
checks = sys.argv[4:] or [prop]
dst = f"/verif/seeded/{sid}"
os.makedirs(dst, exist_ok=True)
for f in ("patch.diff", "demo.py", "notes.md"):
    if os.path.abspath(src) != os.path.abspath(dst):
        shutil.copy(os.path.join(src, f), os.path.join(dst, f))
patch = os.path.join(dst, "patch.diff")


def sh(cmd, **kw):
    return subprocess.run(cmd, shell=True, capture_output=True, text=True, **kw)


REPO = os.environ.get("SEED_REPO", "/repo")       # a scratch clone may be used so that several seeds run in parallel
ENV = dict(os.environ)
if REPO != "/repo":
    ENV["PYTHONPATH"] = REPO + "/src"


def sh(cmd, **kw):
    return subprocess.run(cmd, shell=True, capture_output=True, text=True, env=ENV, **kw)


assert sh(f"git -C {REPO} status --porcelain").stdout.strip() == "", f"{REPO} not clean"
r = sh(f"git -C {REPO} apply --check {patch}")
if r.returncode:
    print("patch does not apply:", r.stderr)
    sys.exit(2)
res = {"id": sid, "property": prop, "checks": {}}
try:
    sh(f"git -C {REPO} apply {patch}")
    b = sh(f"/verif/tools/baseline_check.py {REPO}")
    res["baseline_with_change"] = b.stdout.strip().splitlines()[-1] if b.stdout.strip() else b.stderr[-200:]
    d = sh(f"cd {REPO} && /venv/bin/python {dst}/demo.py")
    res["demo_exit_with_change"] = d.returncode
    for c in checks:
        t = time.time()
        rr = sh(f"{os.environ.get('SEED_VERIF', '/verif')}/check {c} --tier quick")
        lines = [l for l in rr.stdout.splitlines() if l.startswith(("VIOLATION", c + " quick", "KNOWN", "MACH"))]
        res["checks"][c] = {"exit": rr.returncode, "seconds": round(time.time() - t, 1),
                            "violations": sum(1 for l in lines if l.startswith("VIOLATION")),
                            "first": next((l[:300] for l in lines if l.startswith("VIOLATION")), ""),
                            "summary": next((l for l in lines if l.startswith(c + " quick")), rr.stderr[-300:])}
        print(c, "exit", rr.returncode, res["checks"][c]["first"][:200] or res["checks"][c]["summary"][:200])
finally:
    sh(f"git -C {REPO} checkout -- .")
    if REPO == "/repo":
        sh("git -C /verif checkout -- evidence 2>/dev/null; rm -rf /verif/replays")
d = sh(f"cd {REPO} && /venv/bin/python {dst}/demo.py")
res["demo_exit_without_change"] = d.returncode
res["caught_by"] = [c for c, v in res["checks"].items() if v["exit"] == 1]
print(json.dumps({k: v for k, v in res.items() if k != "checks"}))
json.dump(res, open(os.path.join(dst, "result.json"), "w"), indent=1)
