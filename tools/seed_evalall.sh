#!/bin/bash
# seed_evalall.sh <slot> <id:prop:checks>... : re-measure stored seeded changes in scratch clones of committed /repo and /verif (never reuse a slot that is still running)
slot=$1; shift
R=/tmp/seedrepo-$slot; V=/tmp/seedverif-$slot
rm -rf $R $V; git clone -q /repo $R; git clone -q /verif $V
export VERIF_WORKERS=5
for spec in "$@"; do
  IFS=: read sid p checks <<< "$spec"
  SEED_REPO=$R SEED_VERIF=$V timeout 2400 /verif/tools/try_seed.py /verif/seeded/$sid $sid $p ${checks//,/ } 2>&1 | grep -v conda | tail -1 | cut -c1-300
  git -C $R checkout -- .
done
rm -rf $R $V
