#!/usr/bin/env python3
"""Write /verif/seeded/<id>/meta.json from result.json + notes.md."""
import json, os, sys
for sid in sys.argv[1:]:
    d = f"/verif/seeded/{sid}"
    r = json.load(open(f"{d}/result.json"))
    notes = open(f"{d}/notes.md").read()
    meta = {
        "id": sid,
        "breaks_property": r["property"],
        "origin": "independent sub-agent given only the property text and a scratch worktree of /repo (HEAD incl. the fix: commits)",
        "needs_to_manifest": notes.strip(),
        "confirmed": {
            "existing_tests_with_change": r["baseline_with_change"],
            "demo_exit_with_change": r["demo_exit_with_change"],
            "demo_exit_without_change": r["demo_exit_without_change"],
        },
        "what_was_run": [f"git -C /repo apply /verif/seeded/{sid}/patch.diff", "/verif/tools/baseline_check.py",
                         f"cd /repo && /venv/bin/python /verif/seeded/{sid}/demo.py"] +
                        [f"/verif/check {c} --tier quick   -> exit {v['exit']}, {v['violations']} VIOLATION lines; {v['first'] or v['summary']}"
                         for c, v in r["checks"].items()] + ["git -C /repo checkout -- ."],
        "caught_by": r["caught_by"],
    }
    if os.path.exists(f"{d}/meta.json"):          # hand-written remarks survive a re-measurement
        prev = json.load(open(f"{d}/meta.json"))
        for k in ("status", "superseded_by", "note"):
            if k in prev:
                meta[k] = prev[k]
    json.dump(meta, open(f"{d}/meta.json", "w"), indent=1)
    print(sid, "caught_by", r["caught_by"])
