#!/venv/bin/python
"""Run the repository's test suite (guard off) and compare with BASELINE.json."""
import json, os, subprocess, sys, tempfile, xml.etree.ElementTree as ET
repo = sys.argv[1] if len(sys.argv) > 1 else "/repo"
base = json.load(open("/root/.vp/BASELINE.json"))
env = {k: v for k, v in os.environ.items() if k != "EQL_VERIF"}
if repo != "/repo":
    env["PYTHONPATH"] = repo + "/src"
with tempfile.TemporaryDirectory() as d:
    x = os.path.join(d, "j.xml")
    subprocess.run(["/venv/bin/python", "-m", "pytest", "-q", "-p", "no:cacheprovider", "--timeout=900",
                    "--continue-on-collection-errors", f"--junitxml={x}"], cwd=repo, env=env,
                   stdout=subprocess.DEVNULL, stderr=subprocess.DEVNULL)
    passed = set()
    for tc in ET.parse(x).getroot().iter("testcase"):
        if not any(c.tag in ("failure", "error", "skipped") for c in tc):
            passed.add(f"{tc.get('classname')}::{tc.get('name')}")
missing = sorted(set(base["stable_pass"]) - passed)
print(f"baseline: {len(set(base['stable_pass']) & passed)}/{len(base['stable_pass'])} stable tests pass")
for m in missing:
    print("  NOT PASSING:", m)
sys.exit(1 if missing else 0)
