#!/usr/bin/env python3
import json,glob,sys
sys.path.insert(0,'/verif/tools')
from show_replays import show, e
prop=sys.argv[1]; n=int(sys.argv[2]) if len(sys.argv)>2 else 12
seen=set()
for f in sorted(glob.glob('/verif/replays/%s/*.json'%prop)):
    r=json.load(open(f)); rj=r['rejections'][0]; ev=r['trace']['evs'][rj['at']-1]; q=r['case']['qs'][ev.get('qi',1)-1]
    key=show(q['cond'])
    if key in seen: continue
    seen.add(key)
    print(prop, rj['clause'], 'ev%d'%rj['at'], q['desc'], [e(s) for s in q['sel']], 'flats', [e(x) for x in q.get('flats',[])], show(q['cond']), '| exc', ev.get('exc'), ev.get('exc_msg','')[:60], 'nrows', len(ev.get('rows',[])), f.split('/')[-1])
    if len(seen)>=n: break
