#!/bin/sh
# Offline set-up of the verification framework: python deps from the local
# wheelhouse, syntax/semantic check of every TLA+ module, validation of the
# TLA+ value model against CPython.
set -e
cd /verif
/venv/bin/python -c "import jsonschema" 2>/dev/null || \
  /venv/bin/pip install -q --no-index --find-links /opt/veriftools/wheels jsonschema
/venv/bin/python -c "import hypothesis, jsonschema, entity_query_language"
T=$(mktemp -d)
trap 'rm -rf "$T"' EXIT
cd /verif/spec
for m in *.tla; do
  tla-sany "$m" > "$T/sany.out" 2>&1 || { cat "$T/sany.out"; echo "SANY failed on $m"; exit 1; }
  if grep -q "\*\*\* Errors\|Fatal errors" "$T/sany.out"; then cat "$T/sany.out"; echo "SANY errors in $m"; exit 1; fi
done
/venv/bin/python /verif/tools/values_table.py "$T/values.ndjson"
TRACE_FILE="$T/values.ndjson" tlc -workers 1 -metadir "$T/meta" -config ValuesSelfTest.cfg ValuesSelfTest.tla > "$T/values.out" 2>&1 \
  || { tail -30 "$T/values.out"; echo "value model disagrees with CPython"; exit 1; }
grep VALUES "$T/values.out"
# the trace specifications bind: honest recordings accepted, corrupted ones rejected with the named clause
/verif/check C01 --selftest | grep -v "^WARNING" || { echo "selftest failed"; exit 1; }
echo "setup ok"
