#!/usr/bin/env python3
"""Pretty-print the replay files of a property (debugging aid)."""
import json, glob, sys
def e(x):
    kk = x['k']
    if kk == 'var': return 'x%d' % x['i']
    if kk == 'lit': return json.dumps(x['v']['v']) if x['v']['t'] != 'list' else str([y['v'] for y in x['v']['v']])
    if kk == 'attr': return e(x['e']) + '.' + x['a']
    if kk == 'idx': return e(x['e']) + '[%s]' % x['key']['v']
    if kk == 'mcall': return e(x['e']) + '.' + x['m'] + '(%s)' % x['arg']['v']
    if kk == 'flat': return 'flat%d' % x['j']
    if kk == 'concat': return 'concat(' + e(x['e']) + ')'
    if kk == 'sub': return 'sub(x%d|%s)' % (x['i'], show(x['c']))
    return kk
def show(c):
    k = c['k']
    if k == 'cmp': return '(%s %s %s)' % (e(c['l']), c['op'], e(c['r']))
    if k == 'in': return '(%s in %s)' % (e(c['item']), e(c['cont']))
    if k == 'truth': return 'T(%s)' % e(c['e'])
    if k in ('and', 'or'): return '(%s %s %s)' % (show(c['l']), k, show(c['r']))
    if k == 'not': return 'not ' + show(c['c'])
    if k == 'pred': return c['p'] + '(' + ','.join(e(a) for a in c['args']) + ')'
    if k == 'forall': return 'forall(%s: %s)' % (e(c['ue']), show(c['c']))
    if k == 'subq': return 'subq[%s]' % show(c['c'])
    if k in ('chain','conj'): return k + '(' + ', '.join(show(x) for x in c['cs']) + ')'
    return k
if __name__ == '__main__':
    for f in sorted(glob.glob('/verif/replays/%s/*.json' % sys.argv[1])):
        r = json.load(open(f))
        c = r['case']
        if 'qs' in c:
            for rj in r['rejections'][:2]:
                ev = r['trace']['evs'][rj['at'] - 1]
                q = c['qs'][ev.get('qi', 1) - 1]
                print(rj['clause'], '|', q.get('desc'), [e(s) for s in q.get('sel', [])], show(q['cond']), '| ev', rj['at'], ev['op'], 'exc=' + str(ev.get('exc')), '|', f.split('/')[-1])
        else:
            print(r['rejections'][:2], f)
