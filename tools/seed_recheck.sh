#!/bin/bash
# recheck.sh <slot> <seed-id> <check> [more checks]: run checks of the *working* /verif against a seeded change, in scratch copies
slot=$1; sid=$2; shift 2
R=/tmp/rcrepo-$slot; V=/tmp/rcverif-$slot
rm -rf $R $V; git clone -q /repo $R; rsync -a --exclude .git --exclude replays /verif/ $V/
git -C $R apply /verif/seeded/$sid/patch.diff || exit 2
for c in "$@"; do
  PYTHONPATH=$R/src $V/check $c --tier quick 2>&1 | grep -v conda | grep -E "VIOLATION|quick:|KNOWN|MACHINERY|Error" | head -4 | cut -c1-260
done
rm -rf $R $V
