#!/usr/bin/env python3
"""Write /verif/seeded/SUMMARY.md from the result.json files (what tools/try_seed.py measured last)."""
import glob, json, os
rows, caught, neutral = [], 0, []
for d in sorted(glob.glob("/verif/seeded/s-C*")):
    r = json.load(open(d + "/result.json"))
    sid = os.path.basename(d)
    shows = r["demo_exit_with_change"] == 1 and r["demo_exit_without_change"] == 0
    if r["caught_by"]:
        caught += 1
    if not shows:
        neutral.append(sid)
    rows.append(f"| {sid} | {r['property']} | {r['baseline_with_change'].replace('baseline: ', '')} | "
                f"{r['demo_exit_with_change']} / {r['demo_exit_without_change']} | "
                f"{', '.join(r['checks'])} | {', '.join(r['caught_by']) or '—'} |")
with open("/verif/seeded/SUMMARY.md", "w") as f:
    f.write("# Seeded changes: last measurement\n\n"
            "One line per stored change, from its `result.json` (written by `tools/try_seed.py`: the change applied to a scratch\n"
            "clone of /repo, the 70 tests, its demo with and without the change, the quick tier of the listed checks).\n"
            "Why a change is not caught, and what was strengthened for it, is in DESIGN.md (\"Seeded-change log\").\n\n"
            f"{caught} of {len(rows)} are reported by at least one of the checks run for them. "
            f"Demo no longer fails with the change (the library became robust against it through a later repair, or the demo "
            f"is outdated): {', '.join(neutral) or 'none'}.\n\n"
            "| id | property | tests with the change | demo exit with / without | checks run | reported by |\n|---|---|---|---|---|---|\n")
    f.write("\n".join(rows) + "\n")
print(caught, len(rows), neutral)
